// engine/canon.hpp -- canonical keys made of the ENTIRE private state of the library's objects
// (read through -fno-access-control). Raw bytes of every vector / matrix / flag; pointer roles, never addresses.
#pragma once
#include "common.hpp"
#include "SplineTrajectory.hpp"

namespace vf {
using namespace SplineTrajectory;

struct Canon {
  std::string s;
  void raw(const void *p, size_t n) { s.append((const char *)p, n); }
  void i(long v) { raw(&v, sizeof v); }
  void d(double v) { raw(&v, sizeof v); }
  void tag(const char *t) { s += t; s += '|'; }
  template <class M> void mat(const M &m) { i(m.rows()); i(m.cols()); if (m.size()) raw(m.data(), sizeof(double) * (size_t)m.size()); }
  void vec(const std::vector<double> &v) { i((long)v.size()); if (!v.empty()) raw(v.data(), sizeof(double) * v.size()); }
  template <class T> void podvec(const std::vector<T> &v) { i((long)v.size()); if (!v.empty()) raw(v.data(), sizeof(T) * v.size()); }
};

template <int DIM, int ORDER> void canon_add(Canon &c, const PPolyND<DIM, ORDER> &p) {
  c.tag("PP"); c.vec(p.breakpoints_); c.mat(p.coefficients_);
  c.i((long)p.derivative_coeffs_.size()); for (auto &m : p.derivative_coeffs_) c.mat(m);
  c.mat(p.derivative_factor_table_); c.i(p.derivative_factor_table_ready_); c.i(p.derivative_coeffs_ready_);
  c.i(p.num_segments_); c.i(p.num_coeffs_); c.i(p.is_initialized_);
}
template <int DIM> void canon_add(Canon &c, const BoundaryConditions<DIM> &b) {
  c.mat(b.start_velocity); c.mat(b.start_acceleration); c.mat(b.start_jerk); c.mat(b.end_velocity); c.mat(b.end_acceleration); c.mat(b.end_jerk);
}
template <int DIM> void canon_add(Canon &c, const CubicSplineND<DIM> &s) {
  c.tag("CS"); c.vec(s.time_segments_); c.mat(s.spatial_points_); canon_add(c, s.boundary_velocities_); c.i(s.num_segments_); c.mat(s.coeffs_);
  c.i(s.is_initialized_); c.d(s.start_time_); c.vec(s.cumulative_times_); canon_add(c, s.trajectory_);
  c.mat(s.internal_derivatives_); c.mat(s.point_diffs_); c.mat(s.cached_c_prime_); c.mat(s.cached_inv_denoms_); c.mat(s.ws_lambda_); c.podvec(s.time_powers_);
}
template <class S> void canon_add_blocksolver(Canon &c, const S &s) {
  c.vec(s.time_segments_); c.vec(s.cumulative_times_); c.d(s.start_time_); c.mat(s.spatial_points_); c.mat(s.point_diffs_); canon_add(c, s.boundary_);
  c.i(s.num_segments_); c.i(s.is_initialized_); c.mat(s.coeffs_); canon_add(c, s.trajectory_);
  c.mat(s.D_inv_cache_); c.mat(s.U_blocks_cache_); c.mat(s.L_blocks_cache_); c.mat(s.D_inv_T_mul_L_next_T_cache_);
  c.mat(s.internal_vel_); c.mat(s.internal_acc_); c.podvec(s.time_powers_);
  c.mat(s.ws_rhs_mod_); c.mat(s.ws_solution_); c.mat(s.ws_lambda_); c.mat(s.ws_gd_internal_);
}
template <int DIM> void canon_add(Canon &c, const QuinticSplineND<DIM> &s) { c.tag("QS"); canon_add_blocksolver(c, s); }
template <int DIM> void canon_add(Canon &c, const SepticSplineND<DIM> &s) { c.tag("SS"); canon_add_blocksolver(c, s); c.mat(s.internal_jerk_); }

template <class T> std::string canon_of(const T &x) { Canon c; canon_add(c, x); return c.s; }

} // namespace vf

#include "SplineOptimizer.hpp"
namespace vf {
template <int ORD, class G> void canon_add_grads(Canon &c, const G &g) {
  c.mat(g.inner_points); c.mat(g.times); c.mat(g.start.p); c.mat(g.start.v); c.mat(g.end.p); c.mat(g.end.v);
  if constexpr (ORD >= 5) { c.mat(g.start.a); c.mat(g.end.a); }
  if constexpr (ORD >= 7) { c.mat(g.start.j); c.mat(g.end.j); }
}
template <class WS> void canon_add_ws(Canon &c, const WS &w) {
  c.tag("WS"); canon_add(c, w.spline); c.vec(w.cache_times); c.mat(w.cache_waypoints); c.mat(w.cache_gdT); c.mat(w.cache_gdC); c.mat(w.user_gdT_buffer);
  constexpr int ORD = std::decay<decltype(w.spline)>::type::ORDER; canon_add_grads<ORD>(c, w.grads); canon_add_grads<ORD>(c, w.energy_grads);
  c.mat(w.explicit_time_grad_buffer); c.mat(w.discrete_grad_q_buffer); c.vec(w.segment_start_times); c.vec(w.segment_costs);
}
// optimizer: all private members; pointers only by ROLE (own default map / a user map / null), never by address
template <class Opt> void canon_add_opt(Canon &c, const Opt &o, bool with_ws_contents) {
  c.tag("OPT"); c.vec(o.ref_times_); c.mat(o.ref_waypoints_); canon_add(c, o.ref_bc_); c.d(o.start_time_);
  c.i(o.flags_.start_p | o.flags_.start_v << 1 | o.flags_.start_a << 2 | o.flags_.start_j << 3 | o.flags_.end_p << 4 | o.flags_.end_v << 5 | o.flags_.end_a << 6 | o.flags_.end_j << 7);
  c.i(o.num_segments_); c.i(o.is_valid_); c.d(o.rho_energy_); c.i(o.integral_num_steps_);
  c.i(o.active_time_map_ == &o.default_time_map_ ? 0 : o.active_time_map_ == nullptr ? 2 : 1);
  c.i(o.active_spatial_map_ == &o.default_spatial_map_ ? 0 : o.active_spatial_map_ == nullptr ? 2 : 1);
  c.i(o.internal_ws_ ? 1 : 0); if (o.internal_ws_ && with_ws_contents) canon_add_ws(c, *o.internal_ws_);
  c.i((long)o.last_error_message_.size());
  c.i((long)o.spatial_layout_.size()); for (auto &v : o.spatial_layout_) { c.i(v.point_index); c.i(v.offset); c.i(v.dof); }
  c.i(o.derivatives_offset_); c.i(o.total_dimension_); c.i((bool)o.layout_dirty_);
}
} // namespace vf
