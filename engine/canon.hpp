// engine/canon.hpp -- canonical keys made of the ENTIRE private state of the library's objects
// (read through -fno-access-control). Raw bytes of every vector / matrix / flag; pointer roles, never addresses.
#pragma once
#include "common.hpp"
#include <memory>
#include <type_traits>
#include "SplineTrajectory.hpp"

namespace vf {
using namespace SplineTrajectory;

struct Canon {
  std::string s;
  void raw(const void *p, size_t n) { s.append((const char *)p, n); }
  void i(long v) { raw(&v, sizeof v); }
  void d(double v) { raw(&v, sizeof v); }
  void tag(const char *t) { s += t; s += '|'; }
  template <class M> void mat(const M &m) { i(m.rows()); i(m.cols()); if (m.size()) raw(m.data(), sizeof(double) * (size_t)m.size()); }
  void vec(const std::vector<double> &v) { i((long)v.size()); if (!v.empty()) raw(v.data(), sizeof(double) * v.size()); }
  template <class T> void podvec(const std::vector<T> &v) { i((long)v.size()); if (!v.empty()) raw(v.data(), sizeof(T) * v.size()); }
  // type-directed: the private members are read through this, so that a refactoring that changes a member's TYPE (vector -> shared_ptr<vector>,
  // double -> float, ...) still compiles and is keyed by VALUE (pointees, never addresses)
  template <class T> void any(const T &x) {
    if constexpr (std::is_base_of<Eigen::EigenBase<T>, T>::value) mat(x);
    else if constexpr (std::is_arithmetic<T>::value || std::is_enum<T>::value) { double v = (double)x; raw(&v, sizeof v); }
    else if constexpr (is_vector<T>::value) { i((long)x.size()); for (const auto &e : x) any(e); }
    else if constexpr (is_smart_ptr<T>::value) { i(x ? 1 : 0); if (x) any(*x); }
    else if constexpr (std::is_trivially_copyable<T>::value) raw(&x, sizeof x);
    else static_assert(sizeof(T) == 0, "Canon::any: unsupported member type");
  }
  template <class T> struct is_vector : std::false_type {};
  template <class T, class A> struct is_vector<std::vector<T, A>> : std::true_type {};
  template <class T> struct is_smart_ptr : std::false_type {};
  template <class T> struct is_smart_ptr<std::shared_ptr<T>> : std::true_type {};
  template <class T, class Dl> struct is_smart_ptr<std::unique_ptr<T, Dl>> : std::true_type {};
};


// A private member is keyed through VF_KEY: when a refactoring removes or renames it the harness still builds (the member is then keyed as
// "absent"; histories up to the no-de-duplication depth are explored regardless of the key, s3.2), instead of failing to compile.
template <class C, class O, class F> auto key_member(C &c, const O &o, F f, int) -> decltype(f(o), void()) { c.any(f(o)); }
template <class C, class O, class F> void key_member(C &c, const O &, F, long) { c.tag("absent"); }
#define VF_KEY(c, obj, name) ::vf::key_member(c, obj, [](const auto &o_) -> decltype((o_.name)) { return o_.name; }, 0)

template <int DIM, int ORDER> void canon_add(Canon &c, const PPolyND<DIM, ORDER> &p) {
  c.tag("PP"); VF_KEY(c, p, breakpoints_); VF_KEY(c, p, coefficients_);
  VF_KEY(c, p, derivative_coeffs_);
  VF_KEY(c, p, derivative_factor_table_); VF_KEY(c, p, derivative_factor_table_ready_); VF_KEY(c, p, derivative_coeffs_ready_);
  VF_KEY(c, p, num_segments_); VF_KEY(c, p, num_coeffs_); VF_KEY(c, p, is_initialized_);
}
template <int DIM> void canon_add(Canon &c, const BoundaryConditions<DIM> &b) {
  c.mat(b.start_velocity); c.mat(b.start_acceleration); c.mat(b.start_jerk); c.mat(b.end_velocity); c.mat(b.end_acceleration); c.mat(b.end_jerk);
}
template <int DIM> void canon_add(Canon &c, const CubicSplineND<DIM> &s) {
  c.tag("CS"); VF_KEY(c, s, time_segments_); VF_KEY(c, s, spatial_points_); canon_add(c, s.boundary_velocities_); VF_KEY(c, s, num_segments_); VF_KEY(c, s, coeffs_);
  VF_KEY(c, s, is_initialized_); VF_KEY(c, s, start_time_); VF_KEY(c, s, cumulative_times_); canon_add(c, s.trajectory_);
  VF_KEY(c, s, internal_derivatives_); VF_KEY(c, s, point_diffs_); VF_KEY(c, s, cached_c_prime_); VF_KEY(c, s, cached_inv_denoms_); VF_KEY(c, s, ws_lambda_); VF_KEY(c, s, time_powers_);
}
template <class S> void canon_add_blocksolver(Canon &c, const S &s) {
  VF_KEY(c, s, time_segments_); VF_KEY(c, s, cumulative_times_); VF_KEY(c, s, start_time_); VF_KEY(c, s, spatial_points_); VF_KEY(c, s, point_diffs_); canon_add(c, s.boundary_);
  VF_KEY(c, s, num_segments_); VF_KEY(c, s, is_initialized_); VF_KEY(c, s, coeffs_); canon_add(c, s.trajectory_);
  VF_KEY(c, s, D_inv_cache_); VF_KEY(c, s, U_blocks_cache_); VF_KEY(c, s, L_blocks_cache_); VF_KEY(c, s, D_inv_T_mul_L_next_T_cache_);
  VF_KEY(c, s, internal_vel_); VF_KEY(c, s, internal_acc_); VF_KEY(c, s, time_powers_);
  VF_KEY(c, s, ws_rhs_mod_); VF_KEY(c, s, ws_solution_); VF_KEY(c, s, ws_lambda_); VF_KEY(c, s, ws_gd_internal_);
}
template <int DIM> void canon_add(Canon &c, const QuinticSplineND<DIM> &s) { c.tag("QS"); canon_add_blocksolver(c, s); }
template <int DIM> void canon_add(Canon &c, const SepticSplineND<DIM> &s) { c.tag("SS"); canon_add_blocksolver(c, s); VF_KEY(c, s, internal_jerk_); }

template <class T> std::string canon_of(const T &x) { Canon c; canon_add(c, x); return c.s; }

} // namespace vf

#include "SplineOptimizer.hpp"
namespace vf {
template <int ORD, class G> void canon_add_grads(Canon &c, const G &g) {
  c.mat(g.inner_points); c.mat(g.times); c.mat(g.start.p); c.mat(g.start.v); c.mat(g.end.p); c.mat(g.end.v);
  if constexpr (ORD >= 5) { c.mat(g.start.a); c.mat(g.end.a); }
  if constexpr (ORD >= 7) { c.mat(g.start.j); c.mat(g.end.j); }
}
template <class WS> void canon_add_ws(Canon &c, const WS &w) {
  c.tag("WS"); canon_add(c, w.spline); c.any(w.cache_times); c.any(w.cache_waypoints); c.any(w.cache_gdT); c.any(w.cache_gdC); c.any(w.user_gdT_buffer);
  constexpr int ORD = std::decay<decltype(w.spline)>::type::ORDER; canon_add_grads<ORD>(c, w.grads); canon_add_grads<ORD>(c, w.energy_grads);
  c.any(w.explicit_time_grad_buffer); c.any(w.discrete_grad_q_buffer); c.any(w.segment_start_times); c.any(w.segment_costs);
}
// optimizer: all private members; pointers only by ROLE (own default map / a user map / null), never by address
template <class Opt> void canon_add_opt(Canon &c, const Opt &o, bool with_ws_contents) {
  c.tag("OPT"); VF_KEY(c, o, ref_times_); VF_KEY(c, o, ref_waypoints_); canon_add(c, o.ref_bc_); VF_KEY(c, o, start_time_);
  c.i(o.flags_.start_p | o.flags_.start_v << 1 | o.flags_.start_a << 2 | o.flags_.start_j << 3 | o.flags_.end_p << 4 | o.flags_.end_v << 5 | o.flags_.end_a << 6 | o.flags_.end_j << 7);
  VF_KEY(c, o, num_segments_); VF_KEY(c, o, is_valid_); VF_KEY(c, o, rho_energy_); VF_KEY(c, o, integral_num_steps_);
  c.i(o.active_time_map_ == &o.default_time_map_ ? 0 : o.active_time_map_ == nullptr ? 2 : 1);
  c.i(o.active_spatial_map_ == &o.default_spatial_map_ ? 0 : o.active_spatial_map_ == nullptr ? 2 : 1);
  c.i(o.internal_ws_ ? 1 : 0); if (o.internal_ws_ && with_ws_contents) canon_add_ws(c, *o.internal_ws_);
  c.i((long)o.last_error_message_.size());
  c.i((long)o.spatial_layout_.size()); for (auto &v : o.spatial_layout_) { c.i(v.point_index); c.i(v.offset); c.i(v.dof); }
  c.i(o.derivatives_offset_); c.i(o.total_dimension_); c.i((bool)o.layout_dirty_);
}
} // namespace vf
