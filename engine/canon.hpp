// engine/canon.hpp -- canonical keys made of the ENTIRE private state of the library's objects
// (read through -fno-access-control). Raw bytes of every vector / matrix / flag; pointer roles, never addresses.
#pragma once
#include "common.hpp"
#include "SplineTrajectory.hpp"

namespace vf {
using namespace SplineTrajectory;

struct Canon {
  std::string s;
  void raw(const void *p, size_t n) { s.append((const char *)p, n); }
  void i(long v) { raw(&v, sizeof v); }
  void d(double v) { raw(&v, sizeof v); }
  void tag(const char *t) { s += t; s += '|'; }
  template <class M> void mat(const M &m) { i(m.rows()); i(m.cols()); if (m.size()) raw(m.data(), sizeof(double) * (size_t)m.size()); }
  void vec(const std::vector<double> &v) { i((long)v.size()); if (!v.empty()) raw(v.data(), sizeof(double) * v.size()); }
  template <class T> void podvec(const std::vector<T> &v) { i((long)v.size()); if (!v.empty()) raw(v.data(), sizeof(T) * v.size()); }
};

template <int DIM, int ORDER> void canon_add(Canon &c, const PPolyND<DIM, ORDER> &p) {
  c.tag("PP"); c.vec(p.breakpoints_); c.mat(p.coefficients_);
  c.i((long)p.derivative_coeffs_.size()); for (auto &m : p.derivative_coeffs_) c.mat(m);
  c.mat(p.derivative_factor_table_); c.i(p.derivative_factor_table_ready_); c.i(p.derivative_coeffs_ready_);
  c.i(p.num_segments_); c.i(p.num_coeffs_); c.i(p.is_initialized_);
}
template <int DIM> void canon_add(Canon &c, const BoundaryConditions<DIM> &b) {
  c.mat(b.start_velocity); c.mat(b.start_acceleration); c.mat(b.start_jerk); c.mat(b.end_velocity); c.mat(b.end_acceleration); c.mat(b.end_jerk);
}
template <int DIM> void canon_add(Canon &c, const CubicSplineND<DIM> &s) {
  c.tag("CS"); c.vec(s.time_segments_); c.mat(s.spatial_points_); canon_add(c, s.boundary_velocities_); c.i(s.num_segments_); c.mat(s.coeffs_);
  c.i(s.is_initialized_); c.d(s.start_time_); c.vec(s.cumulative_times_); canon_add(c, s.trajectory_);
  c.mat(s.internal_derivatives_); c.mat(s.point_diffs_); c.mat(s.cached_c_prime_); c.mat(s.cached_inv_denoms_); c.mat(s.ws_lambda_); c.podvec(s.time_powers_);
}
template <class S> void canon_add_blocksolver(Canon &c, const S &s) {
  c.vec(s.time_segments_); c.vec(s.cumulative_times_); c.d(s.start_time_); c.mat(s.spatial_points_); c.mat(s.point_diffs_); canon_add(c, s.boundary_);
  c.i(s.num_segments_); c.i(s.is_initialized_); c.mat(s.coeffs_); canon_add(c, s.trajectory_);
  c.mat(s.D_inv_cache_); c.mat(s.U_blocks_cache_); c.mat(s.L_blocks_cache_); c.mat(s.D_inv_T_mul_L_next_T_cache_);
  c.mat(s.internal_vel_); c.mat(s.internal_acc_); c.podvec(s.time_powers_);
  c.mat(s.ws_rhs_mod_); c.mat(s.ws_solution_); c.mat(s.ws_lambda_); c.mat(s.ws_gd_internal_);
}
template <int DIM> void canon_add(Canon &c, const QuinticSplineND<DIM> &s) { c.tag("QS"); canon_add_blocksolver(c, s); }
template <int DIM> void canon_add(Canon &c, const SepticSplineND<DIM> &s) { c.tag("SS"); canon_add_blocksolver(c, s); c.mat(s.internal_jerk_); }

template <class T> std::string canon_of(const T &x) { Canon c; canon_add(c, x); return c.s; }

} // namespace vf
