// engine/optkit.hpp -- harness-owned pieces for the SplineOptimizer checks (C07 C08 C09 C10 C12 C15 C16 C19):
// runtime-parameterised time/spatial maps and cost functors (one C++ type each, so that template instantiations
// stay bounded), the R4 layout/decode model, and problem construction.
#pragma once
#include "splinekit.hpp"
#include "SplineOptimizer.hpp"

namespace vf {

// optional scheduling hook (E3): checks that need it define VF_SCHED_POINT(tag) before including this header
#ifndef VF_SCHED_POINT
#define VF_SCHED_POINT(tag) ((void)0)
#endif

// ---------------- time maps ----------------
// AffSq: T = a + tau^2 (tau > 0), stateful (parameter lives on the heap so that a dangling pointer is visible to ASan)
struct VTimeMap {
  std::vector<double> prm;  // {a}
  VTimeMap() : prm{0.0625} {}
  explicit VTimeMap(double a) : prm{a} {}
  double toTime(double tau) const { VF_SCHED_POINT("toTime"); return prm[0] + tau * tau; }
  double toTau(double T) const { return std::sqrt(T - prm[0]); }
  // dT/dtau = 2 tau = 2 sqrt(T - a) on the branch tau > 0 the harness stays on: the rule deliberately USES the duration it is handed
  // (the bundled maps ignore that argument, so a wrong T passed by the optimizer would otherwise be invisible)
  double backward(double tau, double T, double gradT) const { (void)tau; return 2.0 * std::sqrt(T - prm[0]) * gradT; }
};

// ---------------- spatial maps ----------------
// mode 0 Scale : p = k_i * xi, k_i = k (1 + i/16)       (dof = DIM)
// mode 1 Proj  : p = c_i + B xi, dof(i) = DIM-1 for odd i, DIM for even i (B = first DIM-1 columns of a fixed matrix), DIM >= 2
// mode 2 Tanh  : p = c_i + r_i * tanh(xi), r_i = r (1 + i/8)   (dof = DIM, nonlinear, Jacobian depends on the point index)
template <int DIM> struct VMap {
  typedef Eigen::VectorXd V;
  int mode = 0;
  std::vector<double> prm;  // {k or r, c}
  VMap() : mode(0), prm{1.5, 0.25} {}
  VMap(int m, double k, double c) : mode(m), prm{k, c} {}
  static double Bm(int r, int cidx) { return (r == cidx ? 1.0 : 0.0) + 0.25 * ((r + 2 * cidx) % 3 - 1); }  // fixed, full column rank
  int getUnconstrainedDim(int index) const { VF_SCHED_POINT("dof"); return (mode == 1 && (index & 1) && DIM >= 2) ? DIM - 1 : DIM; }
  V centre(int index) const { V c(DIM); for (int d = 0; d < DIM; ++d) c(d) = prm[1] * (d + 1) + 0.125 * index; return c; }
  V toPhysical(const V &xi, int index) const {
    VF_SCHED_POINT("toPhysical");
    V p(DIM);
    if (mode == 0) { const double k = prm[0] * (1.0 + 0.0625 * index); for (int d = 0; d < DIM; ++d) p(d) = k * xi(d); }
    else if (mode == 1) { int dof = getUnconstrainedDimNoSched(index); p = centre(index); for (int d = 0; d < DIM; ++d) for (int q = 0; q < dof; ++q) p(d) += (dof == DIM ? (d == q ? prm[0] : 0.0) : Bm(d, q)) * xi(q); }
    else { V c = centre(index); const double r = prm[0] * (1.0 + 0.125 * index); for (int d = 0; d < DIM; ++d) p(d) = c(d) + r * std::tanh(xi(d)); }
    return p;
  }
  int getUnconstrainedDimNoSched(int index) const { return (mode == 1 && (index & 1) && DIM >= 2) ? DIM - 1 : DIM; }
  V toUnconstrained(const V &p, int index) const {
    if (mode == 0) { V xi(DIM); const double k = prm[0] * (1.0 + 0.0625 * index); for (int d = 0; d < DIM; ++d) xi(d) = p(d) / k; return xi; }
    if (mode == 1) {
      int dof = getUnconstrainedDimNoSched(index); V r = p - centre(index);
      if (dof == DIM) return r / prm[0];
      Eigen::MatrixXd B(DIM, dof); for (int d = 0; d < DIM; ++d) for (int q = 0; q < dof; ++q) B(d, q) = Bm(d, q);
      return (B.transpose() * B).ldlt().solve(B.transpose() * r);
    }
    V c = centre(index), xi(DIM); const double r = prm[0] * (1.0 + 0.125 * index); for (int d = 0; d < DIM; ++d) xi(d) = std::atanh((p(d) - c(d)) / r); return xi;
  }
  V backwardGrad(const V &xi, const V &gp, int index) const {
    VF_SCHED_POINT("backwardGrad");
    if (mode == 0) return (prm[0] * (1.0 + 0.0625 * index)) * gp;
    if (mode == 1) { int dof = getUnconstrainedDimNoSched(index); V g(dof); for (int q = 0; q < dof; ++q) { double s = 0; for (int d = 0; d < DIM; ++d) s += (dof == DIM ? (d == q ? prm[0] : 0.0) : Bm(d, q)) * gp(d); g(q) = s; } return g; }
    V g(DIM); const double r = prm[0] * (1.0 + 0.125 * index); for (int d = 0; d < DIM; ++d) { double th = std::tanh(xi(d)); g(d) = gp(d) * r * (1 - th * th); } return g;
  }
};

// ---------------- cost functors ----------------
struct TimeCost {
  int mode = 1;  // 0 linear, 1 linear + quadratic, 2 (sum T)^2
  int pert_comp = -1; double pert = 0;  // C19: one gradient component deliberately wrong
  double operator()(const std::vector<double> &Ts, Eigen::VectorXd &grad) const {
    double c = 0; const int n = (int)Ts.size();
    // accumulating form (+=): the library hands every functor zeroed output buffers on every call
    if (mode == 2) { double s = 0; for (double t : Ts) s += t; for (int i = 0; i < n; ++i) grad(i) += 2 * s; c = s * s; }
    else for (int i = 0; i < n; ++i) { double w = 1.0 + 0.25 * i; c += w * Ts[i] + (mode == 1 ? 0.5 * Ts[i] * Ts[i] : 0.0); grad(i) += w + (mode == 1 ? Ts[i] : 0.0); }
    if (pert_comp >= 0 && pert_comp < n) grad(pert_comp) += pert;
    return c;
  }
};
struct ZeroWaypointCost { template <class Q, class G> double operator()(const Q &, G &) const { return 0.0; } };
struct WaypointCost {
  int mode = 1;  // 0 weighted quadratic, 1 + neighbour coupling
  int pert_row = -1, pert_col = 0; double pert = 0;  // C19
  template <class Q, class G> double operator()(const Q &q, G &gq) const {
    double c = 0; const int n = (int)q.rows(), D = (int)q.cols();
    for (int i = 0; i < n; ++i) for (int d = 0; d < D; ++d) { double w = 0.5 + 0.125 * i + 0.0625 * d; c += 0.5 * w * q(i, d) * q(i, d) + 0.25 * q(i, d); gq(i, d) += w * q(i, d) + 0.25; }   // accumulating form: the library hands the functor a zeroed output buffer on EVERY call (a sum of terms written with += is the natural way to write such a functor; seeded change C19-m8)
    if (mode == 1) for (int i = 0; i + 1 < n; ++i) for (int d = 0; d < D; ++d) { c += 0.25 * q(i, d) * q(i + 1, d); gq(i, d) += 0.25 * q(i + 1, d); gq(i + 1, d) += 0.25 * q(i, d); }
    if (pert_row >= 0 && pert_row < n) gq(pert_row, pert_col) += pert;
    return c;
  }
};
// running cost: W_i * [ sum_x a_x 0.5|x|^2 + a_pv p.v ] * phi(t_global) + b * t_global^2 ; explicit time only through t_global
// user executors (the documented protocol: call f(i) for every i in [start, end), in any order / on any thread)
struct DescendingExecutor { template <class F> void operator()(int start, int end, F &&f) const { for (int i = end - 1; i >= start; --i) f(i); } };
struct EvenOddExecutor { template <class F> void operator()(int start, int end, F &&f) const { for (int i = start; i < end; i += 2) f(i); for (int i = start + 1; i < end; i += 2) f(i); } };
struct Sample { double t, tg; int seg; std::vector<double> p, v, a, j, s; };
template <int DIM> struct RunCost {
  typedef Eigen::Matrix<double, DIM, 1> V;
  double ap = 0, av = 0, aa = 0, aj = 0, as = 0, apv = 0, bt = 0;
  double lin = 0;     // linear part lin * (g.p + h.v) with fixed dyadic g, h: value exactly 0 at p = v = 0 while the gradient is not
  int phi = 0;        // 0: 1, 1: 1 + 0.25 sin(tg), 2: tg^2 factor
  bool segw = false;  // W_i = 1 + i/4
  std::vector<Sample> *rec = nullptr;  // optional recorder (C08); not thread safe, used serially only
  // single-component gradient perturbation for C19: which output (0 gp,1 gv,2 ga,3 gj,4 gs,5 gt), component, amount
  int pert_out = -1, pert_comp = 0; double pert = 0;
  int inf_seg = -1;   // a barrier that is infeasible on one segment: the value is +inf at every sample of that segment, the gradients stay finite
  static RunCost mode(int m) {
    RunCost r;
    switch (m) {
      case 0: r.ap = 1; break; case 1: r.av = 1; break; case 2: r.aa = 0.25; break; case 3: r.aj = 0.0625; break; case 4: r.as = 0.015625; break;
      case 5: r.apv = 0.5; r.ap = 0.25; break; case 6: r.bt = 0.5; break; case 7: r.ap = 0.5; r.av = 0.5; r.segw = true; break;
      case 8: r.ap = 1; r.av = 0.5; r.aa = 0.125; r.aj = 0.03125; r.as = 0.0078125; r.apv = 0.25; r.bt = 0.25; r.segw = true; r.phi = 2; break;   // ALL
      case 9: r.ap = 1; r.av = 0.5; r.aa = 0.125; r.aj = 0.03125; r.as = 0.0078125; r.apv = 0.25; r.bt = 0.25; r.segw = true; r.phi = 1; break;   // ALL with sin factor
      case 11: r.lin = 1.0; r.ap = 0.125; r.segw = true; break;   // linear + small quadratic
      default: break;  // 10: zero cost
    }
    return r;
  }
  static const char *mode_name(int m) { static const char *n[] = {"p^2", "v^2", "a^2", "j^2", "s^2", "p.v", "g(t_global)", "segment weight", "ALL*t_g^2", "ALL*(1+sin t_g/4)", "zero", "linear g.p+h.v"}; return n[m]; }
  double operator()(double t, double tg, int i, const V &p, const V &v, const V &a, const V &j, const V &s, V &gp, V &gv, V &ga, V &gj, V &gs, double &gt) const {
    VF_SCHED_POINT("runcost");
    if (rec) { Sample sm; sm.t = t; sm.tg = tg; sm.seg = i; sm.p.assign(p.data(), p.data() + DIM); sm.v.assign(v.data(), v.data() + DIM); sm.a.assign(a.data(), a.data() + DIM); sm.j.assign(j.data(), j.data() + DIM); sm.s.assign(s.data(), s.data() + DIM); rec->push_back(sm); }
    const double W = segw ? 1.0 + 0.25 * i : 1.0;
    double ph = 1, dph = 0; if (phi == 1) { ph = 1 + 0.25 * std::sin(tg); dph = 0.25 * std::cos(tg); } else if (phi == 2) { ph = tg * tg; dph = 2 * tg; }
    V gl, hl; for (int d = 0; d < DIM; ++d) { gl(d) = 1.0 + 0.5 * d; hl(d) = 0.25 - 0.125 * d; }
    const double base = 0.5 * (ap * p.squaredNorm() + av * v.squaredNorm() + aa * a.squaredNorm() + aj * j.squaredNorm() + as * s.squaredNorm()) + apv * p.dot(v) + lin * (gl.dot(p) + hl.dot(v));
    const double m = W * ph;
    // accumulating form, and outputs whose weight is zero are not touched at all: the library zero-initialises gp..gs and gt for every sample
    if (ap != 0 || apv != 0 || lin != 0) gp += m * (ap * p + apv * v + lin * gl); if (av != 0 || apv != 0 || lin != 0) gv += m * (av * v + apv * p + lin * hl);
    if (aa != 0) ga += m * aa * a; if (aj != 0) gj += m * aj * j; if (as != 0) gs += m * as * s;
    if (phi != 0 || bt != 0) gt += W * base * dph + 2 * bt * tg;
    if (pert_out >= 0) { switch (pert_out) { case 0: gp(pert_comp) += pert; break; case 1: gv(pert_comp) += pert; break; case 2: ga(pert_comp) += pert; break; case 3: gj(pert_comp) += pert; break; case 4: gs(pert_comp) += pert; break; default: gt += pert; } }
    if (i == inf_seg) return std::numeric_limits<double>::infinity();
    return m * base + bt * tg * tg;
  }
};

// ---------------- flags / layout model (R4) ----------------
inline OptimizationFlags flags_of(unsigned m) { OptimizationFlags f; f.start_p = m & 1; f.start_v = m & 2; f.start_a = m & 4; f.start_j = m & 8; f.end_p = m & 16; f.end_v = m & 32; f.end_a = m & 64; f.end_j = m & 128; return f; }
struct Layout {
  int N = 0, DIM = 0, order = 0, total = 0, deriv_off = 0;
  std::vector<int> pt_index, pt_off, pt_dof;   // optimised points in index order
  std::vector<std::pair<int, int>> blocks;     // (side, k) in layout order; block b at deriv_off + b*DIM
};
// dof(i) supplied by the caller (the spatial map's unconstrained dimension per global point index)
template <class DofFn> Layout layout_model(int order, int N, int DIM, unsigned mask, DofFn dof) {
  Layout L; L.N = N; L.DIM = DIM; L.order = order;
  int off = N;
  for (int i = 0; i <= N; ++i) { bool opt = i == 0 ? (mask & 1) : i == N ? (mask & 16) : true; if (!opt) continue; int d = dof(i); L.pt_index.push_back(i); L.pt_off.push_back(off); L.pt_dof.push_back(d); off += d; }
  L.deriv_off = off;
  if (mask & 2) L.blocks.push_back({0, 1}); if (order >= 5 && (mask & 4)) L.blocks.push_back({0, 2}); if (order >= 7 && (mask & 8)) L.blocks.push_back({0, 3});
  if (mask & 32) L.blocks.push_back({1, 1}); if (order >= 5 && (mask & 64)) L.blocks.push_back({1, 2}); if (order >= 7 && (mask & 128)) L.blocks.push_back({1, 3});
  L.total = off + (int)L.blocks.size() * DIM;
  return L;
}

// a valid reference problem for the optimizer: N segments, generic dyadic data
template <int D> Problem<D> opt_problem(int S, int N, uint64_t seed, double t0 = 0.375) {
  Problem<D> p; p.N = N; p.t0 = t0;
  static const double dur[6] = {1.0, 0.75, 1.5, 0.625, 1.25, 0.875};
  for (int i = 0; i < N; ++i) p.T.push_back(dur[i % 6]);
  set_generic_data(p, seed);
  (void)S; return p;
}

} // namespace vf
