// engine/splinekit.hpp -- problem lattices (DESIGN s4), long-double polynomial calculus on the
// published coefficients (R3), the dense reference spline solve (R1) and forward-mode jets (R2).
#pragma once
#include "common.hpp"
#include "SplineTrajectory.hpp"

namespace vf {
using namespace SplineTrajectory;

// ----- order selection: S = 2 (cubic), 3 (quintic), 4 (septic); 2S coefficients per piece -----
template <int S, int D> struct SplSel;
template <int D> struct SplSel<2, D> { typedef CubicSplineND<D> type; };
template <int D> struct SplSel<3, D> { typedef QuinticSplineND<D> type; };
template <int D> struct SplSel<4, D> { typedef SepticSplineND<D> type; };
template <int S, int D> using Spl = typename SplSel<S, D>::type;

inline const char *order_name(int S) { return S == 2 ? "cubic" : S == 3 ? "quintic" : "septic"; }
// well-scaled domain W(order): max/min duration ratio
inline double ratio_limit(int S) { return S == 2 ? 1000.0 : S == 3 ? 20.0 : 4.0; }
// dyadic duration letters with ratio exactly R(order)  (DESIGN s4)
inline const double *letters(int S) {
  static const double c[3] = {0.03125, 1.0, 31.25}, q[3] = {0.25, 1.0, 5.0}, p[3] = {0.5, 1.0, 2.0};
  return S == 2 ? c : S == 3 ? q : p;
}
inline long ipow(long b, int e) { long r = 1; while (e-- > 0) r *= b; return r; }

template <int D> struct Problem {
  typedef Eigen::Matrix<double, Eigen::Dynamic, D, (D == 1) ? Eigen::ColMajor : Eigen::RowMajor> Mat;
  typedef Eigen::Matrix<double, D, 1> Vec;
  int N = 0;
  std::vector<double> T;
  double t0 = 0.0;
  Mat P;
  BoundaryConditions<D> bc;
  std::vector<double> timepoints() const {
    std::vector<double> tp(N + 1); tp[0] = t0; for (int i = 0; i < N; ++i) tp[i + 1] = tp[i] + T[i]; return tp;
  }
};

// boundary derivative k (1 = velocity, 2 = acceleration, 3 = jerk) at side 0 (start) / 1 (end)
template <int D> inline Eigen::Matrix<double, D, 1> &bc_ref(BoundaryConditions<D> &bc, int side, int k) {
  if (side == 0) return k == 1 ? bc.start_velocity : k == 2 ? bc.start_acceleration : bc.start_jerk;
  return k == 1 ? bc.end_velocity : k == 2 ? bc.end_acceleration : bc.end_jerk;
}
template <int D> inline const Eigen::Matrix<double, D, 1> &bc_ref(const BoundaryConditions<D> &bc, int side, int k) {
  return bc_ref(const_cast<BoundaryConditions<D> &>(bc), side, k);
}

// duration word w over a 3-letter alphabet: letter of segment i = (w / 3^i) % 3
inline std::vector<double> word_durations(int S, int N, long w, double sigma = 1.0, const double *lett = nullptr) {
  const double *L = lett ? lett : letters(S);
  std::vector<double> T(N);
  for (int i = 0; i < N; ++i) { T[i] = L[w % 3] * sigma; w /= 3; }
  return T;
}
inline std::string word_str(int N, long w, int base = 3) {
  std::string s; for (int i = 0; i < N; ++i) { s += char('0' + (w % base)); w /= base; } return s;
}

// data basis: index b in [0, nbasis): waypoint b (b <= N), then start v,a,j, then end v,a,j (those the order has).
inline int nbasis(int S, int N) { return (N + 1) + 2 * (S - 1); }
template <int D> inline void clear_data(Problem<D> &p) {
  p.P = Problem<D>::Mat::Zero(p.N + 1, D);
  p.bc = BoundaryConditions<D>();
}
template <int D> inline void add_basis(Problem<D> &p, int S, int b, int d, double val) {
  int N = p.N;
  if (b <= N) { p.P(b, d) += val; return; }
  int r = b - (N + 1);
  int side = r / (S - 1), k = r % (S - 1) + 1;
  bc_ref(p.bc, side, k)(d) += val;
}
// coordinate d gets basis vector (b + d) mod nbasis, so cross-talk between coordinates is visible
template <int D> inline void set_basis_data(Problem<D> &p, int S, int b, double val = 1.0) {
  clear_data(p);
  int nb = nbasis(S, p.N);
  for (int d = 0; d < D; ++d) add_basis(p, S, (b + d) % nb, d, val);
}
// generic dyadic data G_seed (k/64); fills all six boundary vectors (unused ones must be ignored by the order)
template <int D> inline void set_generic_data(Problem<D> &p, uint64_t seed) {
  Lcg g(seed);
  p.P.resize(p.N + 1, D);
  for (int i = 0; i <= p.N; ++i) for (int d = 0; d < D; ++d) p.P(i, d) = g.dyadic();
  for (int side = 0; side < 2; ++side) for (int k = 1; k <= 3; ++k) for (int d = 0; d < D; ++d) bc_ref(p.bc, side, k)(d) = g.dyadic();
}

template <int S, int D> inline Spl<S, D> build(const Problem<D> &p) { return Spl<S, D>(p.T, p.P, p.t0, p.bc); }
// The same spline reached through a HISTORY: the object first holds a larger problem (N+2 segments whose leading durations are p's,
// other data, other start time), is queried in every way (energy, gradients, propagateGrad, evaluation), and is then updated to p
// -- through the time-point overload when the time points are exactly representable, else through the duration overload.
// Every observable of the result must equal that of build(p) bit for bit.
template <int S, int D> inline Spl<S, D> build_with_history(const Problem<D> &p, int variant = 0) {
  // variant 0 / 1: larger first problem, update through the time-point / duration overload; variant 2: SAME segment count with other
  // durations (x 0.75), update through the time-point overload; variant 3: see below
  Problem<D> big; big.N = p.N + 2; big.T = p.T; big.T.push_back(variant ? 0.75 : 1.0); big.T.push_back(0.5); big.t0 = p.t0 + 2.0;
  if (variant == 2) { big.N = p.N; big.T = p.T; for (double &t : big.T) t *= 0.75; }
  // variant 3: SAME segment count, SAME start and end time, the durations in REVERSED order (other inner knot times), update by durations
  if (variant == 3) { big.N = p.N; big.T.assign(p.T.rbegin(), p.T.rend()); big.t0 = p.t0; }
  set_generic_data(big, 4242 + p.N);
  Spl<S, D> s(big.T, big.P, big.t0, big.bc);
  (void)s.getEnergy(); (void)s.getEnergyGrad(); (void)s.getEnergyPartialGradByCoeffs(); (void)s.getEnergyPartialGradByTimes();
  { typename Spl<S, D>::MatrixType g = Spl<S, D>::MatrixType::Constant(2 * S * big.N, D, 0.25); Eigen::VectorXd gt = Eigen::VectorXd::Constant(big.N, -0.5); (void)s.propagateGrad(g, gt); }
  for (int k = 0; k < 2 * S; ++k) (void)s.getTrajectory().evaluate(big.t0 + 0.25, k);
  (void)s.getTrajectory().getTrajectoryLength(0.25);
  std::vector<double> tp = p.timepoints(); bool exact = true; for (int i = 0; i < p.N; ++i) exact = exact && (tp[i + 1] - tp[i] == p.T[i]);
  if (exact && variant != 1 && variant != 3) s.update(tp, p.P, p.bc); else s.update(p.T, p.P, p.t0, p.bc);
  return s;
}

// ----- R3: long-double polynomial calculus on published coefficients -----
inline LD fallfac(int n, int k) { LD r = 1; for (int j = 0; j < k; ++j) r *= (LD)(n - j); return r; }
// k-th derivative at local time t of the piece whose m coefficients (ascending power) are c[0..m-1]
inline LD poly_deriv(const LD *c, int m, int k, LD t) {
  if (k >= m) return 0;
  LD r = 0;
  for (int j = m - 1; j >= k; --j) r = r * t + fallfac(j, k) * c[j];
  return r;
}
// sum of absolute values of the terms of the k-th derivative at t  (magnitude bound D_k)
inline LD poly_deriv_abs(const LD *c, int m, int k, LD t) {
  LD r = 0, tp = 1; t = fabsl(t);
  for (int j = k; j < m; ++j) { r += fallfac(j, k) * fabsl(c[j]) * tp; tp *= t; }
  return r;
}
template <class Mat> inline void piece_coeffs(const Mat &C, int m, int seg, int d, LD *out) {
  for (int j = 0; j < m; ++j) out[j] = (LD)C(seg * m + j, d);
}
// integral over [0,T] of (k-th derivative)^2, exact product integration in long double
inline LD energy_piece(const LD *c, int m, int k, LD T) {
  // q(t) = sum_{j>=k} ff(j,k) c_j t^(j-k); integral of q^2 = sum_{a,b} qa qb T^(a+b+1)/(a+b+1)
  int n = m - k; if (n <= 0) return 0;
  LD q[16]; for (int a = 0; a < n; ++a) q[a] = fallfac(a + k, k) * c[a + k];
  LD pw[40]; pw[0] = 1; for (int i = 1; i < 2 * n + 2; ++i) pw[i] = pw[i - 1] * T;
  LD r = 0;
  for (int a = 0; a < n; ++a) for (int b = 0; b < n; ++b) r += q[a] * q[b] * pw[a + b + 1] / (LD)(a + b + 1);
  return r;
}

// ----- R1: dense solve of the spline's defining equations, templated on the scalar -----
template <class Sc> struct RefSpline {
  int s, N, D;
  std::vector<Sc> T;
  std::vector<std::vector<Sc>> C;  // C[seg*2s + k][d]
};
template <class Sc> inline Sc sc_abs(const Sc &a) { return a < Sc(0) ? Sc(0) - a : a; }
// P: (N+1) x D; bs/be: boundary derivatives [k-1][d] for k = 1..s-1
template <class Sc>
RefSpline<Sc> ref_solve(int s, const std::vector<Sc> &T, const std::vector<std::vector<Sc>> &P,
                        const std::vector<std::vector<Sc>> &bs, const std::vector<std::vector<Sc>> &be) {
  int N = (int)T.size(), D = (int)P[0].size(), m = 2 * s, n = m * N;
  std::vector<std::vector<Sc>> A(n, std::vector<Sc>(n + D, Sc(0)));
  int r = 0;
  auto rowDeriv = [&](int row, int seg, Sc t, int k, Sc sign) {
    for (int j = k; j < m; ++j) { Sc p = Sc(1); for (int q = 0; q < j - k; ++q) p = p * t; A[row][seg * m + j] = A[row][seg * m + j] + sign * Sc((double)fallfac(j, k)) * p; }
  };
  for (int k = 0; k < s; ++k) { rowDeriv(r, 0, Sc(0), k, Sc(1)); for (int d = 0; d < D; ++d) A[r][n + d] = (k == 0) ? P[0][d] : bs[k - 1][d]; ++r; }
  for (int i = 1; i < N; ++i) {
    rowDeriv(r, i - 1, T[i - 1], 0, Sc(1)); for (int d = 0; d < D; ++d) A[r][n + d] = P[i][d]; ++r;
    for (int k = 0; k <= 2 * s - 2; ++k) { rowDeriv(r, i - 1, T[i - 1], k, Sc(1)); rowDeriv(r, i, Sc(0), k, Sc(-1)); ++r; }
  }
  for (int k = 0; k < s; ++k) { rowDeriv(r, N - 1, T[N - 1], k, Sc(1)); for (int d = 0; d < D; ++d) A[r][n + d] = (k == 0) ? P[N][d] : be[k - 1][d]; ++r; }
  if (r != n) { fprintf(stderr, "ref_solve: row count %d != %d\n", r, n); abort(); }
  for (int i = 0; i < n; ++i) { Sc mx = Sc(0); for (int j = 0; j < n; ++j) { Sc a = sc_abs(A[i][j]); if (a > mx) mx = a; } if (mx > Sc(0)) for (int j = 0; j < n + D; ++j) A[i][j] = A[i][j] / mx; }
  for (int c = 0; c < n; ++c) {
    int piv = c; Sc best = Sc(0);
    for (int i = c; i < n; ++i) { Sc a = sc_abs(A[i][c]); if (a > best) { best = a; piv = i; } }
    std::swap(A[c], A[piv]); Sc inv = Sc(1) / A[c][c];
    for (int i = c + 1; i < n; ++i) { Sc f = A[i][c] * inv; if (f == Sc(0)) continue; for (int j = c; j < n + D; ++j) A[i][j] = A[i][j] - f * A[c][j]; }
  }
  RefSpline<Sc> R; R.s = s; R.N = N; R.D = D; R.T = T; R.C.assign(n, std::vector<Sc>(D));
  for (int i = n - 1; i >= 0; --i) for (int d = 0; d < D; ++d) { Sc v = A[i][n + d]; for (int j = i + 1; j < n; ++j) v = v - A[i][j] * R.C[j][d]; R.C[i][d] = v / A[i][i]; }
  return R;
}

template <int D> RefSpline<LD> ref_solve_ld(int S, const Problem<D> &p) {
  std::vector<LD> T(p.N); for (int i = 0; i < p.N; ++i) T[i] = p.T[i];
  std::vector<std::vector<LD>> P(p.N + 1, std::vector<LD>(D)), bs(3, std::vector<LD>(D)), be(3, std::vector<LD>(D));
  for (int i = 0; i <= p.N; ++i) for (int d = 0; d < D; ++d) P[i][d] = p.P(i, d);
  for (int k = 1; k <= 3; ++k) for (int d = 0; d < D; ++d) { bs[k - 1][d] = bc_ref(p.bc, 0, k)(d); be[k - 1][d] = bc_ref(p.bc, 1, k)(d); }
  return ref_solve<LD>(S, T, P, bs, be);
}

// ----- R2: forward-mode jets over long double (derivatives w.r.t. the segment durations; N <= JMAX) -----
static const int JMAX = 12;
struct Dual {
  LD v; LD d[JMAX];
  static int &n() { static int k = 0; return k; }
  Dual() : v(0) { for (int i = 0; i < JMAX; ++i) d[i] = 0; }
  Dual(LD x) : v(x) { for (int i = 0; i < JMAX; ++i) d[i] = 0; }
  Dual(double x) : v(x) { for (int i = 0; i < JMAX; ++i) d[i] = 0; }
  Dual(int x) : v(x) { for (int i = 0; i < JMAX; ++i) d[i] = 0; }
  static Dual var(LD x, int i) { Dual r(x); r.d[i] = 1; return r; }
};
inline Dual operator+(const Dual &a, const Dual &b) { Dual r(a.v + b.v); for (int i = 0; i < Dual::n(); ++i) r.d[i] = a.d[i] + b.d[i]; return r; }
inline Dual operator-(const Dual &a, const Dual &b) { Dual r(a.v - b.v); for (int i = 0; i < Dual::n(); ++i) r.d[i] = a.d[i] - b.d[i]; return r; }
inline Dual operator-(const Dual &a) { Dual r(-a.v); for (int i = 0; i < Dual::n(); ++i) r.d[i] = -a.d[i]; return r; }
inline Dual operator*(const Dual &a, const Dual &b) { Dual r(a.v * b.v); for (int i = 0; i < Dual::n(); ++i) r.d[i] = a.d[i] * b.v + a.v * b.d[i]; return r; }
inline Dual operator/(const Dual &a, const Dual &b) { LD q = a.v / b.v; Dual r(q); for (int i = 0; i < Dual::n(); ++i) r.d[i] = (a.d[i] - q * b.d[i]) / b.v; return r; }
inline bool operator<(const Dual &a, const Dual &b) { return a.v < b.v; }
inline bool operator>(const Dual &a, const Dual &b) { return a.v > b.v; }
inline bool operator==(const Dual &a, const Dual &b) { return a.v == b.v; }

// Exact Jacobian of the reference construction map (T, data) -> coefficients for fixed durations T.
//   C[b][r]      coefficient r (= seg*2S + k) of the 1-D reference spline for basis data vector b
//   dT[b][r][i]  d C[b][r] / d T_i          (jets through the dense solve)
// The map is linear in the data, so for data = sum_b alpha_b e_b:  c = sum alpha_b C[b],  dc/dT = sum alpha_b dT[b],
// and dc/d(data component j) = C[j]  (data-independent).
struct RefJac {
  int S = 0, N = 0, nb = 0, M = 0;
  std::vector<std::vector<LD>> C;
  std::vector<std::vector<std::vector<LD>>> dT;
};
inline RefJac ref_jacobian(int S, const std::vector<double> &T) {
  RefJac J; J.S = S; J.N = (int)T.size(); J.nb = nbasis(S, J.N); J.M = 2 * S;
  int N = J.N, nb = J.nb;
  int n = J.M * N;
  J.C.assign(nb, std::vector<LD>(n)); J.dT.assign(nb, std::vector<std::vector<LD>>(n, std::vector<LD>(N)));
  // N > JMAX: the durations are differentiated in windows of JMAX (one dense solve per window, the other durations held constant)
  for (int first = 0; first < N; first += JMAX) {
    const int cnt = std::min(JMAX, N - first);
    Dual::n() = cnt;
    std::vector<Dual> Td(N); for (int i = 0; i < N; ++i) Td[i] = (i >= first && i < first + cnt) ? Dual::var((LD)T[i], i - first) : Dual((LD)T[i]);
    std::vector<std::vector<Dual>> P(N + 1, std::vector<Dual>(nb)), bs(3, std::vector<Dual>(nb)), be(3, std::vector<Dual>(nb));
    for (int b = 0; b < nb; ++b) {
      if (b <= N) P[b][b] = Dual((LD)1); else { int r = b - (N + 1), side = r / (S - 1), k = r % (S - 1) + 1; (side == 0 ? bs : be)[k - 1][b] = Dual((LD)1); }
    }
    RefSpline<Dual> R = ref_solve<Dual>(S, Td, P, bs, be);
    for (int b = 0; b < nb; ++b) for (int r = 0; r < n; ++r) { if (first == 0) J.C[b][r] = R.C[r][b].v; for (int i = 0; i < cnt; ++i) J.dT[b][r][first + i] = R.C[r][b].d[i]; }
  }
  return J;
}
// data of problem p, coordinate d, expressed in the basis (alpha_b)
template <int D> inline std::vector<LD> data_alpha(int S, const Problem<D> &p, int d) {
  int N = p.N, nb = nbasis(S, N); std::vector<LD> a(nb);
  for (int i = 0; i <= N; ++i) a[i] = p.P(i, d);
  for (int side = 0; side < 2; ++side) for (int k = 1; k <= S - 1; ++k) a[(N + 1) + side * (S - 1) + (k - 1)] = bc_ref(p.bc, side, k)(d);
  return a;
}

// Read a library Gradients struct into basis ordering for coordinate d: out[b] = d/d(data component b), b < nb.
template <int S, class G> std::vector<double> grads_data_vec(const G &g, int N, int d) {
  std::vector<double> out(nbasis(S, N));
  out[0] = g.start.p(d);
  for (int i = 1; i < N; ++i) out[i] = g.inner_points(i - 1, d);
  out[N] = g.end.p(d);
  int o = N + 1;
  out[o] = g.start.v(d);
  if constexpr (S >= 3) out[o + 1] = g.start.a(d);
  if constexpr (S >= 4) out[o + 2] = g.start.j(d);
  o += S - 1;
  out[o] = g.end.v(d);
  if constexpr (S >= 3) out[o + 1] = g.end.a(d);
  if constexpr (S >= 4) out[o + 2] = g.end.j(d);
  return out;
}

template <int D> std::string describe(const Problem<D> &p) {
  std::ostringstream o; o.precision(17);
  o << "N=" << p.N << " t0=" << p.t0 << " T=[";
  for (int i = 0; i < p.N; ++i) o << (i ? "," : "") << p.T[i];
  o << "] P=[";
  for (int i = 0; i <= p.N; ++i) { o << (i ? ";" : ""); for (int d = 0; d < D; ++d) o << (d ? "," : "") << p.P(i, d); }
  o << "] bc=[";
  for (int side = 0; side < 2; ++side) for (int k = 1; k <= 3; ++k) { o << (side || k > 1 ? ";" : ""); for (int d = 0; d < D; ++d) o << (d ? "," : "") << bc_ref(p.bc, side, k)(d); }
  o << "]";
  return o.str();
}

template <class M> inline bool mat_bits_equal(const M &a, const M &b) {
  return a.rows() == b.rows() && a.cols() == b.cols() && bits_equal(a.data(), b.data(), (size_t)a.size());
}

} // namespace vf

namespace vf {
// ----- generic dense solve (scaled partial pivoting), long double; A is n x (n + nrhs), solved in place -----
inline bool dense_solve_ld(std::vector<std::vector<LD>> &A, int n, int nrhs, std::vector<std::vector<LD>> &X) {
  for (int i = 0; i < n; ++i) { LD mx = 0; for (int j = 0; j < n; ++j) mx = std::max(mx, fabsl(A[i][j])); if (mx > 0) for (int j = 0; j < n + nrhs; ++j) A[i][j] /= mx; }
  for (int c = 0; c < n; ++c) {
    int piv = c; LD best = 0;
    for (int i = c; i < n; ++i) if (fabsl(A[i][c]) > best) { best = fabsl(A[i][c]); piv = i; }
    if (best == 0) return false;
    std::swap(A[c], A[piv]); LD inv = 1 / A[c][c];
    for (int i = c + 1; i < n; ++i) { LD f = A[i][c] * inv; if (f == 0) continue; for (int j = c; j < n + nrhs; ++j) A[i][j] -= f * A[c][j]; }
  }
  X.assign(n, std::vector<LD>(nrhs));
  for (int i = n - 1; i >= 0; --i) for (int r = 0; r < nrhs; ++r) { LD v = A[i][n + r]; for (int j = i + 1; j < n; ++j) v -= A[i][j] * X[j][r]; X[i][r] = v / A[i][i]; }
  return true;
}

// ----- R1': the same spline obtained as the solution of the optimisation problem (not its optimality
// conditions): minimise sum_i int_0^{T_i} (p_i^{(s)})^2 over piecewise polynomials of degree 2s-1 that are only
// required to be C^{s-1}, subject to interpolation and boundary states; dense KKT solve in long double. -----
inline RefSpline<LD> kkt_solve(int s, const std::vector<LD> &T, const std::vector<std::vector<LD>> &P,
                               const std::vector<std::vector<LD>> &bs, const std::vector<std::vector<LD>> &be) {
  int N = (int)T.size(), D = (int)P[0].size(), m = 2 * s, nc = m * N;
  // constraints
  std::vector<std::vector<LD>> Ac; std::vector<std::vector<LD>> bc;
  auto newrow = [&]() { Ac.push_back(std::vector<LD>(nc, 0)); bc.push_back(std::vector<LD>(D, 0)); return (int)Ac.size() - 1; };
  auto rowDeriv = [&](int row, int seg, LD t, int k, LD sign) { for (int j = k; j < m; ++j) { LD p = 1; for (int q = 0; q < j - k; ++q) p *= t; Ac[row][seg * m + j] += sign * fallfac(j, k) * p; } };
  for (int k = 0; k < s; ++k) { int r = newrow(); rowDeriv(r, 0, 0, k, 1); for (int d = 0; d < D; ++d) bc[r][d] = k == 0 ? P[0][d] : bs[k - 1][d]; }
  for (int i = 1; i < N; ++i) {
    int r = newrow(); rowDeriv(r, i - 1, T[i - 1], 0, 1); for (int d = 0; d < D; ++d) bc[r][d] = P[i][d];
    r = newrow(); rowDeriv(r, i, 0, 0, 1); for (int d = 0; d < D; ++d) bc[r][d] = P[i][d];
    for (int k = 1; k <= s - 1; ++k) { r = newrow(); rowDeriv(r, i - 1, T[i - 1], k, 1); rowDeriv(r, i, 0, k, -1); }
  }
  for (int k = 0; k < s; ++k) { int r = newrow(); rowDeriv(r, N - 1, T[N - 1], k, 1); for (int d = 0; d < D; ++d) bc[r][d] = k == 0 ? P[N][d] : be[k - 1][d]; }
  int ncon = (int)Ac.size(), n = nc + ncon;
  std::vector<std::vector<LD>> K(n, std::vector<LD>(n + D, 0));
  for (int i = 0; i < N; ++i) {
    // Gram matrix of the s-th derivative on [0,T_i]
    for (int a = s; a < m; ++a) for (int b = s; b < m; ++b) {
      LD pw = 1; for (int q = 0; q < a + b - 2 * s + 1; ++q) pw *= T[i];
      K[i * m + a][i * m + b] = 2 * fallfac(a, s) * fallfac(b, s) * pw / (LD)(a + b - 2 * s + 1);
    }
  }
  for (int r = 0; r < ncon; ++r) for (int j = 0; j < nc; ++j) { K[nc + r][j] = Ac[r][j]; K[j][nc + r] = Ac[r][j]; }
  for (int r = 0; r < ncon; ++r) for (int d = 0; d < D; ++d) K[nc + r][n + d] = bc[r][d];
  std::vector<std::vector<LD>> X;
  RefSpline<LD> R; R.s = s; R.N = N; R.D = D; R.T = T;
  if (!dense_solve_ld(K, n, D, X)) { R.N = -1; return R; }
  R.C.assign(nc, std::vector<LD>(D));
  for (int i = 0; i < nc; ++i) R.C[i] = X[i];
  return R;
}
} // namespace vf
