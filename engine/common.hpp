// engine/common.hpp -- shared runtime of every check executable (E1/E2/E3).
//   * argument parsing (--tier, --seed, --shard i/n, --out, --only <unit>, --deadline s)
//   * Stats: what this run covered (counts are measured, never constants)
//   * supervise(): run the exploration in a forked child with a shared-memory breadcrumb, so a
//     crash (Eigen assertion, sanitizer abort, signal) is attributed to the unit being executed,
//     reported as a violation with a replay crumb, and the exploration restarts past it.
//   * minimal JSON writer for the partial result file merged by bin/vcheck.
#pragma once
#include <cstdio>
#include <cstdarg>
#include <cstdlib>
#include <cstring>
#include <cstdint>
#include <cmath>
#include <string>
#include <vector>
#include <map>
#include <set>
#include <unordered_set>
#include <functional>
#include <sstream>
#include <chrono>
#include <unistd.h>
#include <signal.h>
#include <sys/mman.h>
#include <sys/wait.h>

#ifdef VF_COVERAGE   // tools/coverage.py: children leave through _exit(), which skips gcov's atexit handler
extern "C" void __gcov_dump(void);
#define VF_COV_DUMP() __gcov_dump()
#else
#define VF_COV_DUMP() ((void)0)
#endif
namespace vf {

typedef long double LD;

struct Args {
  std::string tier = "quick";
  long seed = 1;
  int shard = 0, nshards = 1;
  std::string out;
  std::string only;      // replay exactly this unit (crumb)
  bool has_only = false;
  double deadline_s = 1e9; // wall-clock budget for this process
  bool verbose = false;
  bool thorough() const { return tier == "thorough"; }
};

inline Args parse_args(int argc, char **argv) {
  Args a;
  for (int i = 1; i < argc; ++i) {
    std::string s = argv[i];
    auto next = [&]() -> std::string { if (i + 1 >= argc) { fprintf(stderr, "missing value for %s\n", s.c_str()); exit(2);} return argv[++i]; };
    if (s == "--tier") a.tier = next();
    else if (s == "--seed") a.seed = atol(next().c_str());
    else if (s == "--shard") { std::string v = next(); sscanf(v.c_str(), "%d/%d", &a.shard, &a.nshards); }
    else if (s == "--out") a.out = next();
    else if (s == "--only") { a.only = next(); a.has_only = true; }
    else if (s == "--deadline") a.deadline_s = atof(next().c_str());
    else if (s == "--verbose") a.verbose = true;
    else { fprintf(stderr, "unknown argument %s\n", s.c_str()); exit(2); }
  }
  return a;
}

inline double now_s() {
  return std::chrono::duration<double>(std::chrono::steady_clock::now().time_since_epoch()).count();
}

inline uint64_t fnv1a(const void *p, size_t n, uint64_t h = 1469598103934665603ULL) {
  const unsigned char *c = (const unsigned char *)p;
  for (size_t i = 0; i < n; ++i) { h ^= c[i]; h *= 1099511628211ULL; }
  return h;
}
inline uint64_t hash_str(const std::string &s) { return fnv1a(s.data(), s.size()); }

struct Violation {
  std::string unit;   // crumb: what to pass to --only
  std::string msg;
  std::map<std::string, std::string> attrs; // for known-findings matching
};

struct Stats {
  long evaluations = 0;   // units (cases / executions / histories) run
  long comparisons = 0;   // individual oracle comparisons / transitions
  long nontrivial = 0;    // distinct units that are non-trivial by the check's rule
  std::unordered_set<uint64_t> distinct;  // hashes of canonical unit keys / states
  std::map<std::string, long> classes;    // outcome / code-path classes
  std::map<std::string, double> observed_max;
  std::vector<std::string> samples;
  std::vector<Violation> violations;
  long suppressed_violations = 0;
  bool exhaustive = true;
  std::string first_unexplored;
  std::map<std::string, std::string> notes;

  void cls(const std::string &k, long n = 1) { classes[k] += n; }
  void obs(const std::string &k, double v) {
    if (!(v == v)) v = INFINITY;
    auto it = observed_max.find(k);
    if (it == observed_max.end()) observed_max[k] = v; else if (v > it->second) it->second = v;
  }
  void sample(const std::string &s, size_t cap = 6) { if (samples.size() < cap) samples.push_back(s); }
  void violate(const std::string &unit, const std::string &msg,
               std::map<std::string, std::string> attrs = {}) {
    if (violations.size() < 200) violations.push_back(Violation{unit, msg, attrs}); else ++suppressed_violations;
  }
  bool seen(const std::string &key) { return !distinct.insert(hash_str(key)).second; }
};

// ---------- JSON ----------
inline std::string jesc(const std::string &s) {
  std::string o; o.reserve(s.size() + 2);
  for (unsigned char c : s) {
    switch (c) {
      case '"': o += "\\\""; break; case '\\': o += "\\\\"; break; case '\n': o += "\\n"; break;
      case '\t': o += "\\t"; break; case '\r': o += "\\r"; break;
      default: if (c < 0x20) { char b[8]; snprintf(b, sizeof b, "\\u%04x", c); o += b; } else o += (char)c;
    }
  }
  return o;
}
inline std::string jnum(double v) {
  if (!(v == v) || std::isinf(v)) return "1e308";
  char b[40]; snprintf(b, sizeof b, "%.6g", v); return b;
}

inline void write_partial(const Args &a, const Stats &st, double wall) {
  if (a.out.empty()) return;
  std::string tmp = a.out + ".tmp";
  FILE *f = fopen(tmp.c_str(), "w");
  if (!f) { perror("open out"); exit(3); }
  fprintf(f, "{\n \"evaluations\": %ld,\n \"comparisons\": %ld,\n \"nontrivial\": %ld,\n \"distinct\": %zu,\n",
          st.evaluations, st.comparisons, st.nontrivial, st.distinct.size());
  fprintf(f, " \"exhaustive\": %s,\n \"first_unexplored\": \"%s\",\n \"wall_s\": %.3f,\n \"suppressed_violations\": %ld,\n",
          st.exhaustive ? "true" : "false", jesc(st.first_unexplored).c_str(), wall, st.suppressed_violations);
  fprintf(f, " \"classes\": {"); bool first = true;
  for (auto &kv : st.classes) { fprintf(f, "%s\"%s\": %ld", first ? "" : ", ", jesc(kv.first).c_str(), kv.second); first = false; }
  fprintf(f, "},\n \"observed_max\": {"); first = true;
  for (auto &kv : st.observed_max) { fprintf(f, "%s\"%s\": %s", first ? "" : ", ", jesc(kv.first).c_str(), jnum(kv.second).c_str()); first = false; }
  fprintf(f, "},\n \"notes\": {"); first = true;
  for (auto &kv : st.notes) { fprintf(f, "%s\"%s\": \"%s\"", first ? "" : ", ", jesc(kv.first).c_str(), jesc(kv.second).c_str()); first = false; }
  fprintf(f, "},\n \"samples\": ["); first = true;
  for (auto &s : st.samples) { fprintf(f, "%s\"%s\"", first ? "" : ", ", jesc(s).c_str()); first = false; }
  fprintf(f, "],\n \"violations\": ["); first = true;
  for (auto &v : st.violations) {
    fprintf(f, "%s\n  {\"unit\": \"%s\", \"msg\": \"%s\", \"attrs\": {", first ? "" : ",", jesc(v.unit).c_str(), jesc(v.msg).c_str());
    bool f2 = true; for (auto &kv : v.attrs) { fprintf(f, "%s\"%s\": \"%s\"", f2 ? "" : ", ", jesc(kv.first).c_str(), jesc(kv.second).c_str()); f2 = false; }
    fprintf(f, "}}"); first = false;
  }
  fprintf(f, "]\n}\n");
  fclose(f);
  rename(tmp.c_str(), a.out.c_str());
}

// ---------- crash attribution ----------
struct Crumb { char text[4000]; char note[3000]; volatile int valid; };
inline Crumb *&crumb_ptr() { static Crumb *p = nullptr; return p; }
inline void crumb(const std::string &s) {
  Crumb *c = crumb_ptr(); if (!c) return;
  size_t n = s.size() < sizeof(c->text) - 1 ? s.size() : sizeof(c->text) - 1;
  memcpy(c->text, s.data(), n); c->text[n] = 0; c->note[0] = 0; c->valid = 1;
}
// optional human-readable description of the unit about to run (shown if the process dies inside it)
inline void crumb_note(const std::string &s) {
  Crumb *c = crumb_ptr(); if (!c) return;
  size_t n = s.size() < sizeof(c->note) - 1 ? s.size() : sizeof(c->note) - 1;
  memcpy(c->note, s.data(), n); c->note[n] = 0;
}

struct Ctx {
  Args args;
  Stats st;
  std::set<std::string> skip;  // units that crashed in an earlier attempt
  double t0;
  double deadline;
  // Call before every unit. Returns false if the unit must not be executed
  // (belongs to another shard is the caller's business; this handles --only, skip and deadline).
  bool begin(const std::string &unit) {
    if (args.has_only && unit != args.only) return false;
    if (skip.count(unit)) return false;
    if (now_s() > deadline) {
      if (st.exhaustive) { st.exhaustive = false; st.first_unexplored = unit; }
      return false;
    }
    crumb(unit);
    return true;
  }
  bool mine(long id) const { return args.has_only || (id % args.nshards) == args.shard; }
  bool out_of_time() const { return !st.exhaustive; }
};

// body(ctx) runs the whole exploration of this shard, calling ctx.begin(unit) before each unit.
inline int supervise(const Args &args, const std::function<void(Ctx &)> &body) {
  double t0 = now_s();
  if (args.has_only) { // replay mode: no fork, run twice and require identical verdicts
    int verdict[2];
    std::string firstmsg;
    for (int rep = 0; rep < 2; ++rep) {
      Ctx c; c.args = args; c.t0 = t0; c.deadline = t0 + 1e9;
      body(c);
      verdict[rep] = c.st.violations.empty() ? 0 : 1;
      if (rep == 0) {
        printf("replay unit=%s evaluations=%ld comparisons=%ld violations=%zu\n", args.only.c_str(), c.st.evaluations, c.st.comparisons, c.st.violations.size());
        for (auto &v : c.st.violations) printf("  violation: %s\n", v.msg.c_str());
        if (c.st.evaluations == 0) { printf("replay: unit not found in this tier/variant\n"); return 2; }
        write_partial(args, c.st, now_s() - t0);
      }
    }
    if (verdict[0] != verdict[1]) { printf("replay NONDETERMINISTIC: two runs of the same unit disagree\n"); return 3; }
    return verdict[0];
  }
  Crumb *cr = (Crumb *)mmap(nullptr, sizeof(Crumb), PROT_READ | PROT_WRITE, MAP_SHARED | MAP_ANONYMOUS, -1, 0);
  if (cr == MAP_FAILED) { perror("mmap"); return 3; }
  crumb_ptr() = cr;
  std::set<std::string> skip;
  std::vector<Violation> crashes;
  for (int attempt = 0; attempt < 12; ++attempt) {
    cr->valid = 0; cr->text[0] = 0; cr->note[0] = 0;
    fflush(stdout); fflush(stderr);
    pid_t pid = fork();
    if (pid < 0) { perror("fork"); return 3; }
    if (pid == 0) {
      Ctx c; c.args = args; c.skip = skip; c.t0 = t0; c.deadline = t0 + args.deadline_s;
      body(c);
      for (auto &v : crashes) c.st.violations.push_back(v);
      write_partial(args, c.st, now_s() - t0);
      fflush(stdout);
      VF_COV_DUMP();
      _exit(0);
    }
    int status = 0; waitpid(pid, &status, 0);
    if (WIFEXITED(status) && WEXITSTATUS(status) == 0) { munmap(cr, sizeof(Crumb)); crumb_ptr() = nullptr; return 0; }
    std::string unit = cr->valid ? std::string(cr->text) : std::string("<before-first-unit>");
    char why[128];
    if (WIFSIGNALED(status)) snprintf(why, sizeof why, "process died with signal %d (%s)", WTERMSIG(status), strsignal(WTERMSIG(status)));
    else snprintf(why, sizeof why, "process exited with status %d", WEXITSTATUS(status));
    fprintf(stderr, "[supervise] unit '%s': %s\n", unit.c_str(), why);
    Violation v; v.unit = unit; v.msg = std::string("CRASH while executing this unit: ") + why + (cr->valid && cr->note[0] ? std::string(" | unit: ") + cr->note : std::string()); v.attrs["kind"] = "crash";
    crashes.push_back(v);
    if (!cr->valid || skip.count(unit)) break; // cannot make progress
    skip.insert(unit);
  }
  // too many crashes (or crash outside any unit): write what we know
  Stats st; st.exhaustive = false; st.first_unexplored = "aborted after repeated crashes";
  st.evaluations = (long)crashes.size(); st.violations = crashes;
  write_partial(args, st, now_s() - t0);
  return 0;
}

// ---------- small helpers ----------
template <class T> inline std::string str(const T &v) { std::ostringstream o; o << v; return o.str(); }
inline std::string fmt(const char *f, ...) __attribute__((format(printf, 1, 2)));
inline std::string fmt(const char *f, ...) {
  char b[2048]; va_list ap; va_start(ap, f); vsnprintf(b, sizeof b, f, ap); va_end(ap); return b;
}

// deterministic LCG for the seed-derived generic data (never selects which cases run)
struct Lcg {
  uint64_t s;
  explicit Lcg(uint64_t seed) : s(seed * 6364136223846793005ULL + 1442695040888963407ULL) { next(); next(); }
  uint32_t next() { s = s * 6364136223846793005ULL + 1442695040888963407ULL; return (uint32_t)(s >> 33); }
  // dyadic value k/64 with k in [-128,128]
  double dyadic() { return ((int)(next() % 257) - 128) / 64.0; }
  // dyadic non-zero
  double dyadic_nz() { double v; do v = dyadic(); while (v == 0.0); return v; }
};

inline bool bits_equal(double a, double b) { return memcmp(&a, &b, sizeof(double)) == 0; }
inline bool bits_equal(const double *a, const double *b, size_t n) { return n == 0 || memcmp(a, b, n * sizeof(double)) == 0; }

} // namespace vf
