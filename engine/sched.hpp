// engine/sched.hpp -- E3: cooperative scheduler + preemption-bounded depth-first exploration of thread schedules.
//   * real pthreads, exactly one runnable at a time; hand-off through one global mutex/condvar pair;
//   * a scheduling point is a call to e3::sched_point(tag): the harness' maps / functors / executors call it, and
//     pthread_mutex_lock/unlock are interposed below (a contended lock marks the thread blocked instead of
//     blocking the process), so std::mutex inside the library becomes visible to the scheduler;
//   * exploration: DFS over choice sequences; default choice = keep running the current thread; switching away from a
//     still-enabled thread costs one preemption; all schedules with <= bound preemptions are executed;
//   * every execution runs in a forked child, so an assertion / sanitizer abort / hang in one schedule is attributed to
//     that schedule; a schedule is a replayable artefact (list of choices).
#pragma once
#include <pthread.h>
#include <dlfcn.h>
#include <unistd.h>
#include <sys/wait.h>
#include <poll.h>
#include <vector>
#include <functional>
#include <string>
#include <cstdio>
#include <cstdlib>
#include <cstring>
#include <cstdint>

namespace e3 {
enum St { READY, RUNNING, BLOCKED_MUTEX, BLOCKED_JOIN, DONE };
struct Th { pthread_t h; St st = READY; void *wait_obj = nullptr; int wait_tid = -1; std::function<void()> body; int id = 0; };
struct Point { std::vector<int> enabled; int chosen = 0; bool running_still_enabled = false; };
typedef int (*mfn)(pthread_mutex_t *);
static mfn real_lock, real_unlock, real_trylock;
static pthread_mutex_t G = PTHREAD_MUTEX_INITIALIZER;
static pthread_cond_t CV = PTHREAD_COND_INITIALIZER;
static std::vector<Th *> ths;
static int current = -1;
static bool controller_turn = true, active = false;
static thread_local int my_id = -1;
static uint64_t trace_hash = 1469598103934665603ULL; static long trace_len = 0;

static void init_real() {
  if (!real_lock) { real_lock = (mfn)dlsym(RTLD_NEXT, "pthread_mutex_lock"); real_unlock = (mfn)dlsym(RTLD_NEXT, "pthread_mutex_unlock"); real_trylock = (mfn)dlsym(RTLD_NEXT, "pthread_mutex_trylock"); }
}
static void trace_add(int tid, const char *tag) { for (const char *p = tag; *p; ++p) { trace_hash ^= (unsigned char)*p; trace_hash *= 1099511628211ULL; } trace_hash ^= (uint64_t)(tid + 17); trace_hash *= 1099511628211ULL; ++trace_len; }
// called by a managed thread: hand control back to the controller and wait to be chosen again
static void yield_to_controller(St newst, const char *tag, void *m = nullptr, int tid = -1) {
  init_real(); real_lock(&G);
  Th *t = ths[my_id]; t->st = newst; t->wait_obj = m; t->wait_tid = tid; trace_add(my_id, tag);
  controller_turn = true; pthread_cond_broadcast(&CV);
  while (!(current == my_id && !controller_turn)) pthread_cond_wait(&CV, &G);
  t->st = RUNNING; real_unlock(&G);
}
inline void sched_point(const char *tag) { if (my_id < 0 || !active) return; yield_to_controller(READY, tag); }
static void *tramp(void *p) {
  Th *t = (Th *)p; my_id = t->id; init_real();
  real_lock(&G); while (!(current == my_id && !controller_turn)) pthread_cond_wait(&CV, &G); t->st = RUNNING; real_unlock(&G);
  t->body();
  real_lock(&G); t->st = DONE; trace_add(my_id, "done"); controller_turn = true; pthread_cond_broadcast(&CV); real_unlock(&G);
  return nullptr;
}
// spawn a managed thread from a managed thread (used by harness executors); returns its id
inline int spawn(std::function<void()> fn) {
  init_real(); real_lock(&G);
  Th *t = new Th; t->id = (int)ths.size(); t->body = fn; t->st = READY; ths.push_back(t);
  pthread_create(&t->h, nullptr, tramp, t);
  real_unlock(&G); return t->id;
}
inline void join(int tid) { for (;;) { init_real(); real_lock(&G); bool done = ths[tid]->st == DONE; real_unlock(&G); if (done) return; yield_to_controller(BLOCKED_JOIN, "join", nullptr, tid); } }

struct Exec { std::vector<Point> points; std::vector<int> choices; bool deadlock = false; uint64_t trace = 0; long trace_len = 0; };

// run one execution following `prefix`, default choice 0 afterwards. A prefix choice out of range is a hard error.
static Exec run(const std::vector<std::function<void()>> &bodies, const std::vector<int> &prefix) {
  init_real(); Exec x;
  for (auto t : ths) delete t; ths.clear(); current = -1; controller_turn = true; active = true; trace_hash = 1469598103934665603ULL; trace_len = 0;
  for (size_t i = 0; i < bodies.size(); ++i) { Th *t = new Th; t->id = (int)i; t->body = bodies[i]; ths.push_back(t); }
  const size_t nroot = ths.size();
  for (size_t i = 0; i < nroot; ++i) pthread_create(&ths[i]->h, nullptr, tramp, ths[i]);
  real_lock(&G);
  for (;;) {
    while (!controller_turn) pthread_cond_wait(&CV, &G);
    for (auto t : ths) if (t->st == BLOCKED_JOIN && ths[t->wait_tid]->st == DONE) t->st = READY;
    std::vector<int> en; bool cur_en = current >= 0 && ths[current]->st == READY; if (cur_en) en.push_back(current);
    for (auto t : ths) if (t->id != current && t->st == READY) en.push_back(t->id);
    bool alldone = true; for (auto t : ths) if (t->st != DONE) alldone = false;
    if (alldone) break;
    if (en.empty()) { x.deadlock = true; break; }
    int k = (int)x.points.size(); int c = k < (int)prefix.size() ? prefix[k] : 0;
    if (c >= (int)en.size()) { fprintf(stderr, "e3: replay divergence at point %d (choice %d of %zu enabled)\n", k, c, en.size()); _exit(97); }
    Point p; p.enabled = en; p.chosen = c; p.running_still_enabled = cur_en; x.points.push_back(p); x.choices.push_back(c);
    current = en[c]; controller_turn = false; pthread_cond_broadcast(&CV);
  }
  x.trace = trace_hash; x.trace_len = trace_len;
  real_unlock(&G); active = false;
  if (!x.deadlock) for (auto t : ths) pthread_join(t->h, nullptr);
  return x;
}

struct Outcome { Exec x; bool ok = true, crashed = false, hung = false; std::string msg; };
// one execution in a forked child; the child reports verdict + points through a pipe
static Outcome run_forked(const std::vector<std::function<void()>> &bodies, const std::function<void()> &reset,
                          const std::function<std::string(const Exec &)> &check, const std::vector<int> &prefix, int timeout_ms = 20000) {
  Outcome o; int fd[2]; if (pipe(fd)) abort();
  fflush(stdout); fflush(stderr);
  pid_t pid = fork();
  if (pid == 0) {
    close(fd[0]); reset(); Exec x = run(bodies, prefix); std::string m = x.deadlock ? std::string("deadlock: no enabled thread") : check(x);
    std::vector<int64_t> buf; buf.push_back(m.empty() ? 1 : 0); buf.push_back(x.deadlock ? 1 : 0); buf.push_back((int64_t)x.trace); buf.push_back(x.trace_len); buf.push_back((int64_t)m.size()); buf.push_back((int64_t)x.points.size());
    for (auto &p : x.points) { buf.push_back(p.chosen); buf.push_back(p.running_still_enabled ? 1 : 0); buf.push_back((int64_t)p.enabled.size()); for (int e : p.enabled) buf.push_back(e); }
    std::string bytes((const char *)buf.data(), buf.size() * sizeof(int64_t)); bytes += m;
    size_t n = bytes.size(); const char *c = bytes.data(); while (n) { ssize_t w = write(fd[1], c, n); if (w <= 0) break; c += w; n -= (size_t)w; }
    _exit(0);
  }
  close(fd[1]); std::string bytes; char tmp[8192];
  for (;;) { struct pollfd pf = {fd[0], POLLIN, 0}; int pr = poll(&pf, 1, timeout_ms); if (pr <= 0) { o.hung = true; kill(pid, SIGKILL); break; } ssize_t r = read(fd[0], tmp, sizeof tmp); if (r <= 0) break; bytes.append(tmp, (size_t)r); }
  close(fd[0]); int st = 0; waitpid(pid, &st, 0);
  o.x.choices = prefix;
  if (o.hung) { o.ok = false; o.msg = "execution did not finish within the time limit"; return o; }
  if (bytes.size() < 6 * sizeof(int64_t) || !WIFEXITED(st) || WEXITSTATUS(st) != 0) {
    o.crashed = true; o.ok = false; char b[160];
    if (WIFSIGNALED(st)) snprintf(b, sizeof b, "process died with signal %d (%s) under this schedule", WTERMSIG(st), strsignal(WTERMSIG(st))); else snprintf(b, sizeof b, "process exited with status %d under this schedule", WIFEXITED(st) ? WEXITSTATUS(st) : -1);
    o.msg = b; return o;
  }
  const int64_t *b = (const int64_t *)bytes.data(); size_t k = 0;
  o.ok = b[k++] != 0; o.x.deadlock = b[k++] != 0; o.x.trace = (uint64_t)b[k++]; o.x.trace_len = b[k++]; size_t ml = (size_t)b[k++]; size_t np = (size_t)b[k++];
  o.x.choices.clear();
  for (size_t i = 0; i < np; ++i) { Point p; p.chosen = (int)b[k++]; p.running_still_enabled = b[k++] != 0; int ne = (int)b[k++]; for (int j = 0; j < ne; ++j) p.enabled.push_back((int)b[k++]); o.x.points.push_back(p); o.x.choices.push_back(p.chosen); }
  o.msg.assign(bytes.data() + k * sizeof(int64_t), ml);
  return o;
}

struct Stats { long execs = 0, violations = 0, crashes = 0, deadlocks = 0, hangs = 0; size_t maxpoints = 0; int maxthreads = 0; std::vector<uint64_t> traces; };
struct Bad { std::vector<int> choices; std::string msg; };

// `part/nparts` splits the exploration tree below the ROOT execution into nparts disjoint sets of subtrees (by the running index of the
// root's alternatives), so that one large unit can be spread over several processes; the root execution itself is counted by part 0.
static void explore(const std::vector<std::function<void()>> &bodies, const std::function<void()> &reset, const std::function<std::string(const Exec &)> &check,
                    int bound, std::vector<int> prefix, Stats &st, std::vector<Bad> &bad, const std::function<bool()> &keep_going, int part = 0, int nparts = 1) {
  if (!keep_going()) return;
  const bool root = prefix.empty();
  Outcome o = run_forked(bodies, reset, check, prefix);
  if (o.hung) o = run_forked(bodies, reset, check, prefix, 120000);  // re-run alone with a longer limit before calling it a hang
  if (!root || part == 0) {
    st.execs++; if (o.x.points.size() > st.maxpoints) st.maxpoints = o.x.points.size();
    if (o.crashed) st.crashes++; if (o.hung) st.hangs++; if (o.x.deadlock) st.deadlocks++;
    st.traces.push_back(o.x.trace);
    if (!o.ok) { st.violations++; if (bad.size() < 8) bad.push_back(Bad{o.x.choices, o.msg}); }
  }
  if (o.crashed || o.hung) return;  // the suffix of a crashed execution is unknown; its prefix alternatives are explored by the callers
  std::vector<int> pre(o.x.points.size() + 1, 0);
  for (size_t i = 0; i < o.x.points.size(); ++i) pre[i + 1] = pre[i] + ((o.x.points[i].running_still_enabled && o.x.points[i].chosen != 0) ? 1 : 0);
  long j = 0;
  for (size_t i = prefix.size(); i < o.x.points.size(); ++i) {
    const Point &p = o.x.points[i];
    for (size_t alt = 1; alt < p.enabled.size(); ++alt) {
      int cost = pre[i] + (p.running_still_enabled ? 1 : 0);
      if (cost > bound) continue;
      if (root && nparts > 1 && (j++ % nparts) != part) continue;
      std::vector<int> np(o.x.choices.begin(), o.x.choices.begin() + (long)i); np.push_back((int)alt);
      explore(bodies, reset, check, bound, np, st, bad, keep_going);
    }
  }
}
} // namespace e3

// mutex operations of managed threads become scheduling events
extern "C" int pthread_mutex_lock(pthread_mutex_t *m) {
  using namespace e3; init_real();
  if (my_id < 0 || !active || m == &G) return real_lock(m);
  for (;;) { sched_point("lock"); if (real_trylock(m) == 0) return 0; yield_to_controller(BLOCKED_MUTEX, "blocked", m); }
}
extern "C" int pthread_mutex_unlock(pthread_mutex_t *m) {
  using namespace e3; init_real();
  int r = real_unlock(m);
  if (my_id < 0 || !active || m == &G) return r;
  real_lock(&G); for (auto t : ths) if (t->st == BLOCKED_MUTEX && t->wait_obj == m) { t->st = READY; t->wait_obj = nullptr; } real_unlock(&G);
  sched_point("unlock"); return r;
}
