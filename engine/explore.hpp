// engine/explore.hpp -- E2: explicit-state breadth-first search over operation histories on REAL objects.
//   * a state is the operation history reaching it; objects are rebuilt by replaying the history on fresh objects
//     (copy construction / assignment are themselves under test, so live objects are never cloned);
//   * de-duplication on a canonical key containing the entire private state (no abstraction): equal keys => equal
//     futures, so de-duplication can only save time, never hide a bug;
//   * every transition is executed twice on fresh replays and the two observation digests must match
//     (replay determinism) before any verdict is believed; observation happens on a separate replay from the one
//     used for the canonical key, because observing fills lazy caches;
//   * fixpoint (frontier exhausted below the depth cap) => the result holds for histories of any length;
//   * independently of the key, ALL histories of length <= full_depth are executed (no de-duplication), which protects
//     against hidden state the canonical key does not know about.
//
// World interface:
//   int nops() const; bool enabled(int op) const; void apply(int op); std::string opname(int op) const;
//   std::string canon() const;                    // whole private state + model state
//   std::string check(std::string &digest);       // observe all live objects, compare with the reference; "" if fine
#pragma once
#include "common.hpp"
#include <deque>

namespace vf {

inline std::string hist_str(const std::vector<int> &h) { std::string s; for (size_t i = 0; i < h.size(); ++i) { if (i) s += '.'; s += str(h[i]); } return s; }
inline std::vector<int> hist_parse(const std::string &s) { std::vector<int> h; std::stringstream ss(s); std::string t; while (std::getline(ss, t, '.')) if (!t.empty()) h.push_back(atoi(t.c_str())); return h; }

struct BfsResult { long states = 0, transitions = 0; int depth = 0; bool fixpoint = false; };

template <class Make>
BfsResult bfs(Ctx &c, const std::string &tag, Make make, int max_depth, int full_depth = 3, long max_states = 2000000) {
  typedef decltype(make()) W;
  BfsResult R;
  auto build = [&](const std::vector<int> &h) { W w = make(); for (int op : h) w->apply(op); return w; };
  auto describe = [&](const std::vector<int> &h) { W w = make(); std::string s; for (size_t i = 0; i < h.size(); ++i) { if (i) s += " ; "; s += w->opname(h[i]); w->apply(h[i]); } return s; };
  if (c.args.has_only) {
    // replay mode: unit = "<tag>:<history>"; check every prefix step of that history
    if (c.args.only.compare(0, tag.size() + 1, tag + ":") != 0) return R;
    std::vector<int> h = hist_parse(c.args.only.substr(tag.size() + 1));
    if (!c.begin(c.args.only)) return R;
    ++c.st.evaluations;
    for (size_t n = 1; n <= h.size(); ++n) {
      std::vector<int> pre(h.begin(), h.begin() + n);
      std::string d1, d2; W a = build(pre); std::string m1 = a->check(d1); W b = build(pre); std::string m2 = b->check(d2);
      ++c.st.comparisons;
      if (d1 != d2) c.st.violate(c.args.only, "replay nondeterminism at step " + str(n));
      if (!m1.empty()) { c.st.violate(c.args.only, tag + ": after [" + describe(pre) + "]: " + m1); break; }
    }
    if (c.args.verbose) printf("history: %s\n", describe(h).c_str());
    return R;
  }
  std::unordered_set<uint64_t> seen;
  std::deque<std::vector<int>> frontier;
  { W w0 = make(); seen.insert(hash_str(w0->canon())); c.st.seen(tag + "#" + w0->canon()); frontier.push_back({}); std::string d; std::string m = w0->check(d); if (!m.empty()) c.st.violate(tag + ":", tag + ": initial state: " + m); }
  R.states = 1; R.fixpoint = true;
  const int nops = make()->nops();
  while (!frontier.empty()) {
    std::vector<int> h = frontier.front(); frontier.pop_front();
    if ((int)h.size() > R.depth) R.depth = (int)h.size();
    const bool at_cap = (int)h.size() >= max_depth;   // still expanded: only a NEW state beyond the cap denies the fixpoint
    if (R.states >= max_states) { R.fixpoint = false; break; }
    for (int op = 0; op < nops; ++op) {
      { W probe = build(h); if (!probe->enabled(op)) continue; }
      std::vector<int> h2 = h; h2.push_back(op);
      std::string unit = tag + ":" + hist_str(h2);
      if (!c.begin(unit)) { if (c.out_of_time()) { R.fixpoint = false; return R; } continue; }
      crumb_note(tag + ": [" + describe(h) + " ; " + make()->opname(op) + "]");
      W w1 = build(h2); std::string key = w1->canon();
      std::string d2, d3;
      W w2 = build(h2); std::string m2 = w2->check(d2);
      W w3 = build(h2); std::string m3 = w3->check(d3);
      ++R.transitions; ++c.st.comparisons; ++c.st.evaluations;
      if (d2 != d3) c.st.violate(unit, tag + ": replay nondeterminism after [" + describe(h2) + "]: two replays of the same history gave different observations");
      else if (!m2.empty()) c.st.violate(unit, tag + ": after [" + describe(h2) + "]: " + m2);
      if (R.transitions % 97 == 1) c.st.sample(tag + ": [" + describe(h2) + "]", 8);
      if (at_cap) { if (!seen.count(hash_str(key))) R.fixpoint = false; continue; }
      // Histories shorter than full_depth are ALWAYS extended, whatever their key: the key lists the private members known when
      // the harness was written, so state kept in a member added by a later change would be invisible to it; below full_depth the
      // exploration is therefore exhaustive over histories with no abstraction at all.
      const bool fresh_key = seen.insert(hash_str(key)).second;
      if (!fresh_key && (int)h2.size() < full_depth) { frontier.push_back(h2); continue; }
      if (fresh_key) { ++R.states; c.st.seen(tag + "#" + key); if (h2.size() >= 2) ++c.st.nontrivial; frontier.push_back(h2); }
    }
  }
  return R;
}

inline void note_bfs(Ctx &c, const std::string &tag, const BfsResult &r, int max_depth) {
  c.st.notes[tag] = fmt("states=%ld transitions=%ld depth=%d %s", r.states, r.transitions, r.depth, r.fixpoint ? "FIXPOINT reached (holds for histories of any length over this alphabet)" : fmt("depth cap %d hit (no fixpoint)", max_depth).c_str());
  c.st.cls(r.fixpoint ? "BFS reached fixpoint" : "BFS stopped at depth cap");
}

} // namespace vf
