#!/bin/bash
# Build /repo's own test suite with its own CMake flags and the verification guard OFF (there are no
# source hooks, so this is simply the pinned suite) in a scratch directory outside /repo and /verif,
# run the 9 test executables, and require the 36 stable result lines of BASELINE.json.
set -u
REPO=${VERIF_REPO:-/repo}
S=$(mktemp -d /tmp/baseline_off.XXXXXX)
trap 'rm -rf "$S"' EXIT
cmake -S "$REPO" -B "$S/b" -G Ninja -DCMAKE_BUILD_TYPE=RelWithDebInfo > "$S/conf.log" 2>&1 || { tail -30 "$S/conf.log"; echo "baseline_off: configure failed"; exit 2; }
cmake --build "$S/b" -j"$(nproc)" --target tests > "$S/build.log" 2>&1 || { tail -40 "$S/build.log"; echo "baseline_off: build failed"; exit 2; }
: > "$S/out.log"
for t in test_cost_grad test_cubic_spline_vs_minco_nd test_septic_spline_vs_minco_nd test_quintic_spline_vs_minco_nd test_Grad test_with_min_jerk_3d test_bc_grad test_with_min_snap_3d test_ppolyND; do
  ( cd "$S/b" && timeout 900 ./$t ) >> "$S/out.log" 2>&1 || echo "baseline_off: $t exited non-zero" >> "$S/out.log"
done
python3 - "$S/out.log" <<'PY'
import re, sys, json
ansi = re.compile(r"\x1b\[[0-9;]*m")
passed, failed = set(), set()
for line in open(sys.argv[1], errors="replace"):
    line = ansi.sub("", line.rstrip())
    m = re.match(r"^\s*\[(PASS|FAIL)\]\s+(.+?)\s*$", line)
    if m:
        (passed if m.group(1) == "PASS" else failed).add(m.group(2)); continue
    m = re.match(r"^\s*(.+?)\s*:\s*(PASS|FAIL)\b", line)
    if m:
        (passed if m.group(2) == "PASS" else failed).add(m.group(1).strip())
stable = json.load(open("/root/.vp/BASELINE.json"))["stable_pass"] if __import__("os").path.exists("/root/.vp/BASELINE.json") else []
missing = [s for s in stable if s not in passed or s in failed]
print("baseline_off: %d result lines passed, %d failed, stable required %d, missing/failed stable: %s" % (len(passed), len(failed), len(stable), missing))
sys.exit(1 if missing else 0)
PY
