#!/usr/bin/env python3
"""Regenerate the generated appendices of DESIGN.md (between the BEGIN/END GENERATED markers) from checks/registry.py,
seeded/*/meta.json and seeded/results.tsv, so that the document cannot drift from what is registered."""
import json, os, sys, glob, re
VERIF = os.path.dirname(os.path.dirname(os.path.abspath(__file__)))
sys.path.insert(0, os.path.join(VERIF, "checks"))
import registry
out = []
out.append("## Appendix A — checks as registered (generated from `checks/registry.py`)\n")
for pid in sorted(registry.CHECKS):
    s = registry.CHECKS[pid]
    jq = s["jobs"]("quick"); jt = s["jobs"]("thorough")
    out.append("### %s — %s\n" % (pid, s.get("engine", "")))
    out.append("* **technique**: %s" % s.get("technique", ""))
    out.append("* **unit / rule**: %s" % s.get("rule", ""))
    out.append("* **bounds (quick)**: %s" % s.get("bounds", {}).get("quick", ""))
    out.append("* **bounds (thorough)**: %s" % s.get("bounds", {}).get("thorough", ""))
    out.append("* **thresholds**: %s" % json.dumps(s.get("thresholds", {})))
    out.append("* **translation units**: quick %d (%s), thorough %d" % (len(jq), ", ".join(sorted(set(j["src"] for j in jq))), len(jt)))
    out.append("")
out.append("## Appendix B — seeded changes and which checks catch them (generated from `seeded/`)\n")
res = {}
rp = os.path.join(VERIF, "seeded", "results.tsv")
if os.path.exists(rp):
    for line in open(rp):
        f = line.rstrip("\n").split("\t")
        if len(f) >= 3:
            res.setdefault(f[0], {})[f[1]] = f[2]
out.append("| seeded change | property | what it needs to manifest | detected by (quick tier) | missed by |")
out.append("|---|---|---|---|---|")
for d in sorted(glob.glob(os.path.join(VERIF, "seeded", "*", "meta.json"))):
    sid = os.path.basename(os.path.dirname(d))
    try:
        m = json.load(open(d))
    except Exception:
        m = {}
    r = res.get(sid, {})
    det = ", ".join(sorted(k for k, v in r.items() if v == "DETECTED")) or "—"
    mis = ", ".join(sorted(k for k, v in r.items() if v != "DETECTED")) or "—"
    need = re.sub(r"\s+", " ", str(m.get("needs_to_manifest", "")))[:260].replace("|", "/")
    out.append("| %s | %s | %s | %s | %s |" % (sid, m.get("property", ""), need, det, mis))
out.append("")
text = "\n".join(out)
p = os.path.join(VERIF, "DESIGN.md")
s = open(p).read()
B, E = "<!-- BEGIN GENERATED -->", "<!-- END GENERATED -->"
if B in s:
    s = s[:s.index(B)] + B + "\n" + text + "\n" + E + s[s.index(E) + len(E):]
else:
    s = s.rstrip("\n") + "\n\n" + B + "\n" + text + "\n" + E + "\n"
open(p, "w").write(s)
print("DESIGN.md appendices regenerated (%d checks, %d seeded changes)" % (len(registry.CHECKS), len(glob.glob(os.path.join(VERIF, "seeded", "*", "meta.json")))))
