#!/usr/bin/env python3
"""Regenerate /verif/MANIFEST.json from checks/registry.py (keeps the manifest valid at all times)."""
import json, os, sys
VERIF = os.path.dirname(os.path.dirname(os.path.abspath(__file__)))
sys.path.insert(0, os.path.join(VERIF, "checks"))
import registry

props = [json.loads(l)["id"] for l in open(os.path.join(VERIF, "properties.jsonl")) if l.strip()]
checks = []
for pid in props:
    if pid not in registry.CHECKS:
        continue
    s = registry.CHECKS[pid]
    checks.append({
        "property_id": pid,
        "quick_cmd": "bin/vcheck %s --tier quick" % pid,
        "thorough_cmd": "bin/vcheck %s --tier thorough" % pid,
        "evidence_file": "/verif/evidence/%s.json" % pid,
        "replay_cmd_template": "bin/vcheck %s --replay {path}" % pid,
        "engine": s.get("engine", ""),
        "level_claimed": {"category": s.get("level", "model_checking"),
                          "text": s.get("level_text", ""),
                          "design_ref": s.get("design_ref", "DESIGN.md s5 (%s)" % pid)},
        "level_note": s.get("level_note", "; ".join(s.get("assumptions", []))),
        "technique": s.get("technique", ""),
    })
na = [{"property_id": p, "reason": registry.NOT_APPLICABLE.get(p, "check not built yet in this revision of /verif (planned in DESIGN.md s5); not claimed")}
      for p in props if p not in registry.CHECKS]
m = {
    "version": 1,
    "setup_cmd": "bin/vcheck --setup",
    "hooks": {
        "guard": "SPLINETRAJECTORY_VERIF",
        "enable": "harness compile lines pass -DSPLINETRAJECTORY_VERIF; no source hooks exist in /repo (template parameters, -fno-access-control and libc interposition give every seam)",
        "baseline_off_cmd": "tools/baseline_off.sh",
        "source_commits": [],
        "add_only": True,
    },
    "engines": registry.ENGINES,
    "checks": checks,
    "not_applicable": na,
    "notes": registry.NOTES,
}
json.dump(m, open(os.path.join(VERIF, "MANIFEST.json"), "w"), indent=1)
print("MANIFEST.json: %d checks, %d not_applicable" % (len(checks), len(na)))
