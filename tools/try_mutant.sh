#!/bin/bash
# try_mutant.sh <seeded id> <check> [<check>...] : apply seeded/<id>/patch.diff to /repo, run the quick checks, revert.
# Prints one line per check: DETECTED / missed.
set -u
VERIF=$(cd "$(dirname "$0")/.." && pwd); ID=$1; shift
[ -z "$(git -C /repo status --porcelain --untracked-files=no)" ] || { echo "/repo has uncommitted changes"; exit 2; }
git -C /repo apply "$VERIF/seeded/$ID/patch.diff" || exit 2
trap 'git -C /repo checkout -- . ' EXIT
TIER=${TIER:-quick}
for c in "$@"; do
  out=$(cd "$VERIF" && VERIF_NO_EVIDENCE=1 bin/vcheck "$c" --tier $TIER 2>&1); rc=$?
  nviol=$(echo "$out" | grep -c '^VIOLATION')
  first=$(echo "$out" | grep -m1 '^VIOLATION' | cut -c1-260)
  if [ $rc -eq 1 ] && [ $nviol -gt 0 ]; then echo "$ID vs $c: DETECTED ($nviol lines) $first"; else echo "$ID vs $c: missed (rc=$rc) $(echo "$out" | tail -1 | cut -c1-200)"; fi
done
