#!/bin/bash
# try_mutant.sh <seeded id> <check> [<check>...] : run the quick (or $TIER) checks against seeded/<id>/patch.diff.
# The change is applied in a scratch worktree of /repo HEAD (outside /repo and /verif) and the checks are pointed at it with
# VERIF_REPO, so /repo itself is never modified; evidence/replays of trial runs go to build/ (VERIF_NO_EVIDENCE=1).
# Prints one line per check: DETECTED / missed.
set -u
VERIF=$(cd "$(dirname "$0")/.." && pwd); ID=$1; shift
WT=$(mktemp -d /tmp/try.XXXXXX); rmdir "$WT"
git -C /repo worktree add --detach "$WT" HEAD -q || exit 2
trap 'git -C /repo worktree remove --force "$WT" >/dev/null 2>&1; rm -rf "$WT"' EXIT
git -C "$WT" apply "$VERIF/seeded/$ID/patch.diff" || { echo "$ID: patch does not apply"; exit 2; }
TIER=${TIER:-quick}
for c in "$@"; do
  out=$(cd "$VERIF" && VERIF_REPO="$WT" VERIF_NO_EVIDENCE=1 bin/vcheck "$c" --tier $TIER 2>&1); rc=$?
  nviol=$(echo "$out" | grep -c '^VIOLATION')
  first=$(echo "$out" | grep -m1 '^VIOLATION' | sed 's/^VIOLATION property=[A-Z0-9]* replay=[^ ]*  # //' | cut -c1-230)
  if [ $rc -eq 1 ] && [ $nviol -gt 0 ]; then echo "$ID vs $c: DETECTED ($nviol lines) $first"; verdict=DETECTED; else echo "$ID vs $c: missed (rc=$rc) $(echo "$out" | tail -1 | cut -c1-200)"; verdict="missed(rc=$rc)"; fi
  # record (latest verdict per pair wins)
  R="$VERIF/seeded/results.tsv"; touch "$R"; grep -v -P "^$ID\t$c\t" "$R" > "$R.tmp" || true; printf "%s\t%s\t%s\t%s\n" "$ID" "$c" "$verdict" "$first" >> "$R.tmp"; sort "$R.tmp" > "$R"; rm -f "$R.tmp"
done
