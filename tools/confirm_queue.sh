#!/bin/bash
# confirm_queue.sh <log> <worktree-id> <n> [<worktree-id> <n> ...] : confirm seeded changes one at a time (global lock).
LOG=$1; shift
exec 9>/tmp/confirm_queue.lock
flock 9
while [ $# -ge 2 ]; do "$(dirname "$0")/confirm_mutant.sh" /tmp/wt/$1/mutant$2 $1-m$2 >> "$LOG" 2>&1; shift 2; done
