#!/bin/bash
# run_all.sh <quick|thorough> [ids...] : run the registered checks one after another, one summary line each.
TIER=${1:-quick}; shift
VERIF=$(cd "$(dirname "$0")/.." && pwd); cd "$VERIF"
IDS=${@:-$(python3 -c "import json;print(' '.join(c['property_id'] for c in json.load(open('MANIFEST.json'))['checks']))")}
rc_all=0
for id in $IDS; do
  t0=$(date +%s); out=$(bin/vcheck $id --tier $TIER 2>&1); rc=$?; t1=$(date +%s)
  echo "[$id rc=$rc $((t1-t0))s] $(echo "$out" | tail -1 | cut -c1-230)"
  [ $rc -ne 0 ] && { rc_all=1; echo "$out" | grep -E "^(VIOLATION|HARNESS-ERROR|COMPILE)" | head -5 | cut -c1-400; }
done
exit $rc_all
