#!/usr/bin/env python3
"""coverage.py [tier] [ids...] -- development aid (not a registered check): which lines of /repo/include do the checks execute?

Builds every job of the given tier with gcov instrumentation in a scratch directory under /tmp (removed at the end), runs all
shards, merges the gcov line counts over all jobs and prints, per header, the instrumented-but-never-executed line ranges and the
functions that were never executed. Used to find blind spots of the alphabets (DESIGN.md s9); the result is written to
/verif/coverage_report.txt.
"""
import sys, os, json, gzip, subprocess, shutil, glob, concurrent.futures as cf
VERIF = os.path.dirname(os.path.dirname(os.path.abspath(__file__)))
sys.path.insert(0, os.path.join(VERIF, "checks"))
import registry  # noqa
REPO = os.environ.get("VERIF_REPO", "/repo")
SCR = "/tmp/vcov"
tier = sys.argv[1] if len(sys.argv) > 1 else "quick"
ids = sys.argv[2:] or sorted(registry.CHECKS)


def build_and_run(prop, j):
    if j["name"] == "C12_sched":
        return prop, j["name"], "skipped (one fork per schedule; the same bodies run in C12_tsan/C12_omp, built here with g++ and no sanitizer)"
    d = os.path.join(SCR, j["name"]); os.makedirs(d, exist_ok=True)
    flags = ["-std=c++17", "-O1", "-fno-access-control", "-ffp-contract=off", "-g0", "-w", "--coverage", "-DVF_COVERAGE", "-DSPLINETRAJECTORY_VERIF",
             "-I" + os.path.join(REPO, "include"), "-I" + os.path.join(VERIF, "engine"), "-I" + os.path.join(VERIF, "checks"), "-I/usr/include/eigen3"]
    flags += j.get("defs", []) + [f for f in j.get("flags", []) if not f.startswith("-fsanitize") and f != "-fno-omit-frame-pointer"]
    src = os.path.join(VERIF, j["src"])
    extra = [os.path.join(VERIF, e) for e in j.get("extra_src", [])]
    r = subprocess.run(["g++"] + flags + [src] + extra + ["-o", "exe"] + j.get("link", ["-lpthread"]), cwd=d, stdout=subprocess.PIPE, stderr=subprocess.STDOUT, text=True)
    if r.returncode:
        return prop, j["name"], "COMPILE FAILED: " + r.stdout[-800:]
    ns = j.get("shards", {}).get(tier) if isinstance(j.get("shards"), dict) else j.get("shards")
    ns = ns or 4
    env = dict(os.environ); env.update({k: v for k, v in j.get("env", {}).items() if "SAN_OPTIONS" not in k})
    for s in range(ns):   # sequential within a job: the shards share one .gcda file
        subprocess.run(["./exe", "--tier", tier, "--seed", "1", "--shard", "%d/%d" % (s, ns), "--out", "out.json", "--deadline", "3000"] + j.get("args", []),
                       cwd=d, env=env, stdout=subprocess.DEVNULL, stderr=subprocess.DEVNULL)
    subprocess.run("gcov -j -m exe-*.gcda >/dev/null 2>&1 || gcov -j -m *.gcda > /dev/null 2>&1", shell=True, cwd=d)
    return prop, j["name"], "ok"


shutil.rmtree(SCR, ignore_errors=True); os.makedirs(SCR)
jobs = []
for p in ids:
    for j in registry.CHECKS[p]["jobs"](tier):
        jobs.append((p, j))
with cf.ThreadPoolExecutor(max_workers=14) as ex:
    for prop, name, st in ex.map(lambda a: build_and_run(*a), jobs):
        print(prop, name, st, flush=True)

lines = {}    # file -> line -> max count
funcs = {}    # file -> (name, start) -> max count
for gz in glob.glob(SCR + "/*/*.gcov.json.gz"):
    d = json.load(gzip.open(gz))
    for f in d["files"]:
        fn = f["file"]
        if "/include/Spline" not in fn:
            continue
        fn = os.path.basename(fn)
        L = lines.setdefault(fn, {})
        for ln in f["lines"]:
            L[ln["line_number"]] = max(L.get(ln["line_number"], 0), ln["count"])
        F = funcs.setdefault(fn, {})
        for fu in f["functions"]:
            k = (fu["demangled_name"], fu["start_line"])
            F[k] = max(F.get(k, 0), fu["execution_count"])
out = []
for fn in sorted(lines):
    L = lines[fn]; tot = len(L); hit = sum(1 for v in L.values() if v > 0)
    out.append("== %s: %d of %d instrumented lines executed (%.1f%%)" % (fn, hit, tot, 100.0 * hit / max(tot, 1)))
    src = open(os.path.join(REPO, "include", fn)).read().split("\n")
    miss = sorted(k for k, v in L.items() if v == 0)
    rng = []
    for k in miss:
        if rng and k <= rng[-1][1] + 2: rng[-1][1] = k
        else: rng.append([k, k])
    for a, b in rng:
        out.append("  never executed %d-%d: %s" % (a, b, src[a - 1].strip()[:110]))
    # functions by start line: executed in no instantiation
    by_line = {}
    for (name, st), cnt in funcs[fn].items():
        by_line.setdefault(st, [0, name]); by_line[st][0] = max(by_line[st][0], cnt)
    for st in sorted(by_line):
        if by_line[st][0] == 0:
            out.append("  function never executed (line %d): %s" % (st, by_line[st][1][:140]))
    # code that was never even instantiated (templates / inline members no check touches): statement-looking lines that gcov never
    # saw in any job, reported as ranges with the nearest preceding function-looking line
    import re
    stmt = re.compile(r"(;\s*(//.*)?$)|(^\s*(if|for|while|return|else)\b)")
    never = [k for k in range(1, len(src) + 1) if k not in L and stmt.search(src[k - 1]) and not re.match(r"^\s*(//|\*|/\*|#|using |typedef |static constexpr|friend |template|public:|private:|protected:)", src[k - 1])]
    rng = []
    for k in never:
        if rng and k <= rng[-1][1] + 3: rng[-1][1] = k
        else: rng.append([k, k])
    for a, b in rng:
        if b - a < 1: continue
        head = a
        while head > 1 and not re.search(r"\)\s*(const)?\s*(noexcept)?\s*$|\)\s*(const)?\s*\{", src[head - 1]): head -= 1
        out.append("  never instantiated %d-%d (after line %d: %s)" % (a, b, head, src[head - 1].strip()[:100]))
open(os.path.join(VERIF, "coverage_report.txt"), "w").write("\n".join(out) + "\n")
print("\n".join(out[:400]))
shutil.rmtree(SCR, ignore_errors=True)
