#!/bin/bash
# seed_sweep.sh <seeds...> : run every quick check under each seed (trial mode: evidence untouched); print only non-clean lines.
cd "$(dirname "$0")/.."
for s in "$@"; do for p in $(python3 -c "import json;print(' '.join(c['property_id'] for c in json.load(open('MANIFEST.json'))['checks']))"); do
  out=$(VERIF_SEED=$s VERIF_NO_EVIDENCE=1 bin/vcheck $p --tier quick 2>&1); rc=$?
  line=$(echo "$out" | tail -1 | cut -c1-170)
  if [ $rc -ne 0 ]; then echo "seed=$s $p rc=$rc: $line"; echo "$out" | grep -m3 '^VIOLATION' | cut -c1-300; else echo "seed=$s $p ok"; fi
done; done
