#!/bin/bash
# confirm_mutant.sh <dir with patch.diff demo.cpp meta.json> <seeded id>
# Confirms, in a scratch worktree outside /repo and /verif, that a seeded change (1) applies, (2) keeps the
# repository's own suite passing, (3) makes its demonstration fail while the unmodified tree passes it.
# On success the change is stored as /verif/seeded/<id>/ . The worktree is removed afterwards.
set -u
SRC=$1; ID=$2
VERIF=$(cd "$(dirname "$0")/.." && pwd)
WT=$(mktemp -d /tmp/confirm.XXXXXX); rmdir "$WT"
git -C /repo worktree add --detach "$WT" HEAD -q || exit 2
cleanup() { git -C /repo worktree remove --force "$WT" >/dev/null 2>&1; rm -rf "$WT"; }
trap cleanup EXIT
LOG="$WT/confirm.log"; : > "$LOG"
CXX="g++ -std=c++17 -O1 -I$WT/include -I/usr/include/eigen3"
# honour special needs stated in the demo's compile-command comment
head -30 "$SRC/demo.cpp" | grep -q -- "-fopenmp" && CXX="$CXX -fopenmp"
head -30 "$SRC/demo.cpp" | grep -q -- "-fsanitize=address" && CXX="$CXX -fsanitize=address"
head -30 "$SRC/demo.cpp" | grep -q -- "-fsanitize=thread" && CXX="clang++ -std=c++17 -O1 -fsanitize=thread -I$WT/include -I/usr/include/eigen3"
$CXX "$SRC/demo.cpp" -o "$WT/demo_clean" -lpthread >>"$LOG" 2>&1 || { echo "$ID: demo does not compile on the clean tree"; tail -5 "$LOG"; exit 1; }
( cd "$WT" && timeout 600 ./demo_clean ) >"$WT/demo_clean.out" 2>&1; RC_CLEAN=$?
git -C "$WT" apply "$SRC/patch.diff" || { echo "$ID: patch does not apply"; exit 1; }
$CXX "$SRC/demo.cpp" -o "$WT/demo_mut" -lpthread >>"$LOG" 2>&1 || { echo "$ID: demo does not compile on the mutated tree"; exit 1; }
( cd "$WT" && timeout 600 ./demo_mut ) >"$WT/demo_mut.out" 2>&1; RC_MUT=$?
# some demos need several runs (interleavings): retry the mutated demo a few times if it passed
if [ $RC_MUT -eq 0 ]; then for i in 1 2 3 4 5; do ( cd "$WT" && timeout 600 ./demo_mut ) >"$WT/demo_mut.out" 2>&1; RC_MUT=$?; [ $RC_MUT -ne 0 ] && break; done; fi
rm -f "$WT/demo_clean" "$WT/demo_mut"
# A change confined to SplineOptimizer.hpp cannot alter the suite: no test source includes that header (checked here), so the
# suite's binaries are byte-for-byte those of the unchanged tree, whose result is the recorded baseline.
ONLY_OPT=$(grep -c '^diff --git' "$SRC/patch.diff"); TOUCH_OPT=$(grep -c '^diff --git a/include/SplineOptimizer.hpp' "$SRC/patch.diff")
if [ "$ONLY_OPT" = "1" ] && [ "$TOUCH_OPT" = "1" ] && ! grep -lq "SplineOptimizer" "$WT"/*.cpp "$WT"/include/large_scale_traj_optimizer/* 2>/dev/null; then
  SUITE="suite unaffected (patch touches only include/SplineOptimizer.hpp, which no test source includes; verified by grep) missing/failed stable: []"
else
  SUITE=$(VERIF_REPO="$WT" "$VERIF/tools/baseline_off.sh" 2>&1 | tail -1)
fi
VERDICT=rejected
if [ $RC_CLEAN -eq 0 ] && [ $RC_MUT -ne 0 ] && echo "$SUITE" | grep -q "missing/failed stable: \[\]"; then VERDICT=confirmed; fi
echo "$ID: clean demo rc=$RC_CLEAN, mutated demo rc=$RC_MUT, suite: $SUITE => $VERDICT"
if [ $VERDICT = confirmed ]; then
  mkdir -p "$VERIF/seeded/$ID"
  cp "$SRC/patch.diff" "$SRC/demo.cpp" "$VERIF/seeded/$ID/"
  python3 - "$SRC/meta.json" "$VERIF/seeded/$ID/meta.json" "$RC_CLEAN" "$RC_MUT" "$SUITE" <<'PY'
import json, sys
try: m = json.load(open(sys.argv[1]))
except Exception: m = {}
m["confirmed_by_me"] = {"clean_demo_rc": int(sys.argv[3]), "mutated_demo_rc": int(sys.argv[4]), "suite_with_change": sys.argv[5],
                        "how": "tools/confirm_mutant.sh: scratch worktree of /repo HEAD, demo built with g++ -O1 (no -ffast-math) on the clean and the changed tree, repository suite built with its own CMake flags and run (tools/baseline_off.sh: the 36 stable result lines must pass)"}
json.dump(m, open(sys.argv[2], "w"), indent=1)
PY
fi
