#!/bin/bash
# regress_seeded.sh [ids...] : re-run every seeded change against the check of its own property (quick tier) with the CURRENT checks;
# prints one line per change. Results are also recorded in seeded/results.tsv by try_mutant.sh.
cd "$(dirname "$0")/.."
IDS=${@:-$(ls seeded | grep -E '^C[0-9]+-')}
for id in $IDS; do
  home=$(python3 -c "import json;print(json.load(open('seeded/$id/meta.json')).get('property','${id%%-*}'))")
  case "$id" in C02-m4|C05-m6|C01-m10|C13-m12|C17-m11) home=C12;; C14-m7) home=C08;; C14-m9|C18-m11) home=C03;; C14-m10) home=C15;; C14-m12) home=C07;; esac   # see DESIGN s9: these do not break the property they were filed under
  tools/try_mutant.sh "$id" "$home" 2>&1 | tail -1 | cut -c1-160
done
