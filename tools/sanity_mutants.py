#!/usr/bin/env python3
"""sanity_mutants.py [name-filter] -- hand-made property-breaking edits (the detection plan of DESIGN s9), each applied with a
regex to a scratch worktree of /repo HEAD and run against the quick checks expected to catch it (VERIF_REPO). Not evidence; a
development aid that tells which checks are blind to which slip. Nothing is written to /repo."""
import re, subprocess, sys, os, tempfile, shutil
VERIF = os.path.dirname(os.path.dirname(os.path.abspath(__file__)))
T, O = "include/SplineTrajectory.hpp", "include/SplineOptimizer.hpp"
# (name, file, pattern, replacement, count(0=all / n-th occurrence index list), checks)
M = [
 ("C01-starttime0", T, r"start_time_ = t_points\.front\(\);", "start_time_ = 0.0;", 0, ["C01"]),
 ("C01-bc4-swap", T, r"start_velocity\(start_vel\), start_acceleration\(start_acc\),\n(\s+)end_velocity\(end_vel\), end_acceleration\(end_acc\) \{\}", r"start_velocity(start_vel), start_acceleration(end_vel),\n\1end_velocity(start_acc), end_acceleration(end_acc) {}", 0, ["C01"]),
 ("C03-hint-le", T, r"t >= breakpoints_\[idx \+ 1\] && t < breakpoints_\[idx \+ 2\]", "t >= breakpoints_[idx + 1] && t <= breakpoints_[idx + 2]", 0, ["C03"]),
 ("C03-hint-noupdate", T, r"\*last_idx_hint = idx \+ 1;\n", "", 0, ["C03"]),
 ("C03-static-table", T, r"acc \*= static_cast<double>\(n - k \+ 1\);\n(\s+)table\[n\]\[k\] = acc;", r"acc *= static_cast<double>(n - k + 1);\n\1table[n][k] = (n == 7 && k == 7) ? 5041.0 : acc;", 0, ["C03"]),
 ("C06-boundary-lt2", T, r"BoundaryDualGrads res;\n(\s+)if \(num_segments_ < 1\)", r"BoundaryDualGrads res;\n\1if (num_segments_ < 2)", 0, ["C06"]),
 ("C07-drift-no-gs", O, r" \+ gs\.dot\(c\);", ";", 0, ["C07"]),
 ("C08-runningtime0", O, r"double running_time = start_time_;", "double running_time = 0.0;", 0, ["C08"]),
 ("C08-septic-bsnap", T, r"b_snap << 0, 0, 0, 0, 24, 120 \* t1, 360 \* t2, 840 \* t3;", "b_snap << 0, 0, 0, 0, 24, 120 * t1, 360 * t2, 480 * t3;", 0, ["C08", "C07"]),
 ("C09-nodirty-spatialmap", O, r"(active_spatial_map_ = \(map != nullptr\) \? map : &default_spatial_map_;\n\s+)markLayoutDirty\(\);", r"\1", 0, ["C09"]),
 ("C10-gdinternal-nozero", T, r"(ws_gd_internal_\.resize\(n_pts, 2 \* DIM\);\n\s+)ws_gd_internal_\.setZero\(\);", r"\1", 0, ["C10", "C05"]),
 ("C10-ws-resize-gdT", O, r"if \(static_cast<int>\(cache_times\.size\(\)\) != num_segments\)", "if (static_cast<int>(cache_gdT.size()) < num_segments)", 0, ["C10"]),
 ("C12-reduce-in-lambda", O, r"ws\.segment_costs\[i\] = local_acc_cost;", "ws.segment_costs[i] = 0.0; cost += local_acc_cost;", 0, ["C12"]),
 ("C14-cubic-Mn-sign", T, r"M\.row\(n\) = 6\.0 \* \(boundary_velocities_\.end_velocity\.transpose\(\) - p_diff_h\.row\(n - 1\)\);", "M.row(n) = 6.0 * (boundary_velocities_.end_velocity.transpose() + p_diff_h.row(n - 1));", 0, ["C14", "C01", "C02"]),
 ("C15-assign-keeps-ws", O, r"else\n\s+internal_ws_\.reset\(\);", "", 0, ["C15"]),
 ("C16-le-threshold", O, r"\} else if \(t < MIN_VALID_DURATION\) \{", "} else if (t <= MIN_VALID_DURATION) {", 0, ["C16"]),
 ("C16-no-jerk-check", O, r"if \(!ref_bc_\.start_jerk\.array\(\)\.isFinite\(\)\.all\(\)\) \{", "if (false) {", 0, ["C16"]),
 ("C16-msg-not-cleared", O, r"(double start_time,\n\s+const BoundaryConditions<DIM> &bc\)\n\s+\{\n\s+)last_error_message_\.clear\(\);", r"\1", 0, ["C16"]),
 ("C17-backward-sign", O, r"return gradT \* \(1\.0 - tau\) / \(den \* den\);", "return gradT * (1.0 + tau) / (den * den);", 0, ["C17"]),
 ("C17-toTau-offset", O, r": \(1\.0 - std::sqrt\(2\.0 / T - 1\.0\)\);", ": (1.0 - std::sqrt(2.0 / T - 1.0) + (T < 0.5 ? 1e-9 : 0.0));", 0, ["C17"]),
 ("C17-branch-1e-3", O, r"return tau > 0\n(\s+)\? \(\(0\.5", r"return tau > 1e-3\n\1? ((0.5", 0, ["C17"]),
 ("C18-quintic-float-det", T, r"(static inline void Inverse2x2[^}]*?)const double inv_det = 1\.0 / det;", r"\1const double inv_det = (double)(1.0f / (float)det);", 0, ["C18", "C02"]),
 ("C19-no-restore", O, r"x_temp\(i\) = old_val;\n\n", "\n", 0, ["C19"]),
 ("C19-forward-diff", O, r"res\.numerical\(i\) = \(c_p - c_m\) / \(2 \* eps\);", "res.numerical(i) = (c_p - res.analytical.dot(Eigen::VectorXd::Zero(x.size())) - c_m) / (2 * eps) + (c_p + c_m) * 0.0 + 1e-3;", 0, ["C19"]),
 ("C19-no-final-eval", O, r"(x_temp\(i\) = old_val;\n\n\s+res\.numerical\(i\) = \(c_p - c_m\) / \(2 \* eps\);\n\s+\}\n\n\s+)evaluate\(x, res\.analytical, tf, wf, ifc, &ws_ref\);", r"\1", 0, ["C19"]),
 ("C20-append-1e-3", T, r"std::abs\(time_sequence\.back\(\) - end_t\) > 1e-6", "std::abs(time_sequence.back() - end_t) > 1e-3", 0, ["C20"]),
 ("C20-round", T, r"int num_steps = std::floor\(duration / dt\);", "int num_steps = std::round(duration / dt);", 0, ["C20"]),
 ("C20-dt-not-actual", T, r"total_length \+= velocity\.norm\(\) \* dt_actual;", "total_length += velocity.norm() * dt;", 0, ["C20"]),
 ("C11-no-invalidate", T, r"(num_segments_ = static_cast<int>\(breakpoints_\.size\(\)\) - 1;\n\s+)invalidateDerivativeCaches\(\);", r"\1", 0, ["C11"]),
 ("C13-septic-dim-gt3", T, r"RowVectorType dc4_dh = \(\(840\.0 \* dP \* tp\.h5_inv\)", "RowVectorType dc4_dh = ((804.0 * dP * tp.h5_inv)", 0, ["C13", "C05"]),
 ("C04-quintic-T4-clamp", T, r"const double T4 = T3 \* T;\n(\s+)const double T5 = T4 \* T;\n\n(\s+)RowVectorType c3 = coeffs_\.row\(i \* 6 \+ 3\);", r"const double T4 = std::min(T3 * T, 16.0);\n\1const double T5 = T3 * T * T;\n\n\2RowVectorType c3 = coeffs_.row(i * 6 + 3);", 0, ["C04"]),
 ("C02-quintic-elseif", T, r"if \(k == n - 1\)\n(\s+)\{", r"if (k == n - 1 && i != 0)\n\1{", [0], ["C02"]),
]
filt = sys.argv[1] if len(sys.argv) > 1 else ""
for name, f, pat, rep, cnt, checks in M:
    if filt and filt not in name: continue
    wt = tempfile.mkdtemp(prefix="sanity.", dir="/tmp"); os.rmdir(wt)
    subprocess.run(["git", "-C", "/repo", "worktree", "add", "--detach", wt, "HEAD", "-q"], check=True)
    try:
        p = os.path.join(wt, f); s = open(p).read()
        if isinstance(cnt, list):
            ms = list(re.finditer(pat, s)); ns = s
            for k in sorted(cnt, reverse=True):
                if k < len(ms): m = ms[k]; ns = ns[:m.start()] + m.expand(rep) + ns[m.end():]
        else:
            ns = re.sub(pat, rep, s)
        if ns == s:
            print("%-26s PATTERN NOT FOUND" % name); continue
        open(p, "w").write(ns)
        res = []
        for c in checks:
            env = dict(os.environ, VERIF_REPO=wt, VERIF_NO_EVIDENCE="1")
            r = subprocess.run([os.path.join(VERIF, "bin/vcheck"), c, "--tier", "quick"], stdout=subprocess.PIPE, stderr=subprocess.STDOUT, text=True, env=env)
            first = next((l for l in r.stdout.splitlines() if l.startswith("VIOLATION")), "")
            res.append("%s:%s" % (c, "DETECTED" if r.returncode == 1 and first else "missed(rc=%d)" % r.returncode))
            if r.returncode == 2: res[-1] += " " + r.stdout[-300:].replace("\n", " ")
        print("%-26s %s" % (name, "  ".join(res)), flush=True)
    finally:
        subprocess.run(["git", "-C", "/repo", "worktree", "remove", "--force", wt]); shutil.rmtree(wt, ignore_errors=True)
