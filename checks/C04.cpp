// C04 -- reported energy = integral of the squared s-th derivative of the published trajectory (E1; R3; arguments L and P).
// -DVDIM=<d>
#include "splinekit.hpp"
#ifndef VDIM
#define VDIM 2
#endif
using namespace vf;
static const int D = VDIM;
typedef Problem<D> Prob;
static const double THR = 1e-12;  // closed-form class (worst observed 4.2e-16), relative to the sum of |terms| of the exact integral

static LD energy_piece_abs(const LD *c, int m, int k, LD T) {
  LD a[16]; for (int j = 0; j < m; ++j) a[j] = fabsl(c[j]); return energy_piece(a, m, k, T);
}

template <int S> struct Runner {
  typedef Spl<S, D> Sp;
  typedef typename Sp::MatrixType Mat;
  static const int M = 2 * S;
  Ctx &c; const std::string &unit;
  Sp reused; bool toggle = false; int nth = 0;  // long-lived object re-fitted with every problem of the unit through alternating overloads
  Runner(Ctx &c_, const std::string &u) : c(c_), unit(u) {}
  void fail(const std::string &what, const std::string &detail) {
    c.st.violate(unit, fmt("%s D=%d: %s: %s", order_name(S), D, what.c_str(), detail.c_str()), {{"order", order_name(S)}, {"what", what}});
  }
  // exact energy and magnitude from a coefficient matrix + durations
  void exact(const Mat &C, const std::vector<double> &T, LD &E, LD &mag, int dsel = -1) {
    E = 0; mag = 0;
    for (int i = 0; i < (int)T.size(); ++i) for (int d = 0; d < D; ++d) { if (dsel >= 0 && d != dsel) continue; LD cc[16]; piece_coeffs(C, M, i, d, cc); E += energy_piece(cc, M, S, (LD)T[i]); mag += energy_piece_abs(cc, M, S, (LD)T[i]); }
  }
  // (a) injected coefficients: fixes every weight and every power of T of the closed form (arguments L + P)
  void injected(int nseg, int j, int k, double Tv) {
    Prob p; p.N = nseg; p.T.assign(nseg, 1.0); p.t0 = 0; set_generic_data(p, 5);
    Sp sp = build<S, D>(p);
    for (int variant = 0; variant < (nseg == 1 ? 1 : 2); ++variant) {
      Mat C = Mat::Zero(M * nseg, D);
      std::vector<double> T(nseg);
      for (int i = 0; i < nseg; ++i) T[i] = (nseg == 1 || i == 1) ? Tv : (i == 0 ? 0.625 : 2.75);
      for (int i = 0; i < nseg; ++i) {
        if (variant == 0 && nseg > 1 && i != 1) continue;  // variant 0: only the middle piece is non-zero
        for (int d = 0; d < D; ++d) { int jj = (j + d + i) % M, kk = (k + d + i) % M; C(i * M + jj, d) += 1.0 + 0.25 * d; if (kk != jj) C(i * M + kk, d) += (d & 1) ? -0.5 : 0.75; }
      }
      sp.coeffs_ = C;
      for (int i = 0; i < nseg; ++i) { sp.time_segments_[i] = T[i]; sp.time_powers_[i].h = T[i]; }
      LD E, mag; exact(C, T, E, mag);
      double got = sp.getEnergy();
      double res = mag > 0 ? (double)(fabsl((LD)got - E) / mag) : (got != 0 ? 1.0 : 0.0);
      ++c.st.comparisons; c.st.obs(fmt("injected/%s", order_name(S)), res);
      if (res > THR) fail("energy-injected", fmt("segments %d rows (%d,%d) T=%g variant %d: getEnergy %.17g exact %.17Lg res %.3g", nseg, j, k, Tv, variant, got, E, res));
    }
  }
  // (b) public route
  void check_public(const Prob &p) {
    Sp sp = build<S, D>(p);
    const auto &C = sp.getTrajectory().getCoefficients();
    LD E, mag; exact(C, p.T, E, mag);
    double got = sp.getEnergy();
    double res = mag > 0 ? (double)(fabsl((LD)got - E) / mag) : (got != 0 ? 1.0 : 0.0);
    ++c.st.comparisons; c.st.obs(fmt("public/%s", order_name(S)), res);
    if (res > THR) fail("energy-public", fmt("getEnergy %.17g exact integral %.17Lg res %.3g | %s", got, E, res, describe(p).c_str()));
    { if (reused.isInitialized()) (void)reused.getEnergy();
      // every third problem the long-lived object first holds the SAME segment count, start and end time with the durations in reversed order
      // (other inner knots): the trajectory it publishes afterwards must carry the new knots (seeded change C04-m8)
      if (p.N >= 2 && (++nth % 3) == 0) { Prob r = p; r.T.assign(p.T.rbegin(), p.T.rend()); reused.update(r.T, r.P, r.t0, r.bc); (void)reused.getEnergy(); (void)reused.getTrajectory().evaluate(r.t0, 1);
        // the intermediate state is checked too: the previous problem of the unit had p's knots, so a stale grid would be right again by luck afterwards
        Sp fr = build<S, D>(r); ++c.st.comparisons; if (reused.getTrajectory().getBreakpoints() != fr.getTrajectory().getBreakpoints() || !mat_bits_equal(reused.getTrajectory().getCoefficients(), fr.getTrajectory().getCoefficients()) || !bits_equal(reused.getEnergy(), fr.getEnergy())) fail("energy-reused-object", fmt("after a re-fit that keeps N, start and end time but moves the inner knots, the published trajectory (knots / polynomials) or the energy is not that of a fresh fit | %s", describe(r).c_str())); }
      if (toggle) reused.update(p.T, p.P, p.t0, p.bc); else { std::vector<double> tp = p.timepoints(); bool exact = true; for (int i = 0; i < p.N; ++i) exact = exact && (tp[i + 1] - tp[i] == p.T[i]); if (exact) reused.update(tp, p.P, p.bc); else reused.update(p.T, p.P, p.t0, p.bc); }
      toggle = !toggle; double e1 = reused.getEnergy(), e2 = reused.getEnergy(); ++c.st.comparisons;
      if (reused.getTrajectory().getBreakpoints() != sp.getTrajectory().getBreakpoints() || !mat_bits_equal(reused.getTrajectory().getCoefficients(), C)) fail("energy-reused-object", fmt("the trajectory a re-fitted object publishes (knots / polynomials) is not the one its energy refers to | %s", describe(p).c_str()));
      if (!bits_equal(e1, got) || !bits_equal(e2, got)) fail("energy-reused-object", fmt("a re-fitted object reports %.17g (then %.17g), a fresh one %.17g | %s", e1, e2, got, describe(p).c_str())); }
    // objects that reached this problem through a history (a LARGER problem whose energy was queried, the same N with other durations, reversed
    // durations) report the same energy, bit for bit (seeded change C04-m9: per-segment scratch only ever grown and summed over its whole length)
    for (int v = 0; v < 4; v += 3) { Sp h = build_with_history<S, D>(p, v); const double eh = h.getEnergy(); ++c.st.comparisons; if (!bits_equal(eh, got) || !bits_equal(h.getEnergy(), got)) { fail("energy-after-history", fmt("a spline that held %s before reports %.17g, a fresh one %.17g | %s", v <= 1 ? "a larger, fully queried problem" : "another problem of the same size", eh, got, describe(p).c_str())); break; } }
    if ((LD)got < -THR * mag) fail("energy-negative", fmt("getEnergy %.17g | %s", got, describe(p).c_str()));
    // sum over coordinates: energy of the D-dim spline = sum of the energies of the 1-D splines of its coordinates
    if (D > 1) {
      LD sum = 0;
      for (int d = 0; d < D; ++d) {
        Problem<1> q; q.N = p.N; q.T = p.T; q.t0 = p.t0; q.P.resize(p.N + 1, 1);
        for (int i = 0; i <= p.N; ++i) q.P(i, 0) = p.P(i, d);
        for (int side = 0; side < 2; ++side) for (int k = 1; k <= 3; ++k) bc_ref(q.bc, side, k)(0) = bc_ref(p.bc, side, k)(d);
        Spl<S, 1> s1 = build<S, 1>(q); sum += (LD)s1.getEnergy();
      }
      double r2 = mag > 0 ? (double)(fabsl((LD)got - sum) / mag) : 0.0;
      ++c.st.comparisons; c.st.obs(fmt("sum_of_dims/%s", order_name(S)), r2);
      if (r2 > THR) fail("energy-sum-of-dims", fmt("getEnergy %.17g sum of 1-D energies %.17Lg res %.3g | %s", got, sum, r2, describe(p).c_str()));
    }
  }
  void run_case(int N, const std::vector<double> &T, double t0) {
    Prob p; p.N = N; p.T = T; p.t0 = t0;
    int nb = nbasis(S, N);
    for (int b = 0; b < nb; ++b) { set_basis_data(p, S, b); check_public(p); }
    set_generic_data(p, (uint64_t)c.args.seed * 1000 + N); check_public(p);
    // an uninitialised object reports zero
  }
};

template <int S> static void explore(Ctx &c, long &id) {
  const bool th = c.args.thorough();
  // 9 values pin the polynomial in T; 4 extreme values (2^-40 .. 2^20) cover guards that would break polynomiality
  static const double Tvals[13] = {0.125, 0.25, 0.375, 0.5, 1.0, 2.0, 3.0, 4.0, 8.0, 9.094947017729282e-13, 5.9604644775390625e-08, 0.0009765625, 1048576.0};
  const int M = 2 * S;
  // (a) injected coefficients
  for (int nseg : {1, 3}) for (int j = 0; j < M; ++j) for (int k = j; k < M; ++k) for (int ti = 0; ti < 13; ++ti) {
    long my = id++;
    if (!c.mine(my)) continue;
    std::string unit = str(my);
    if (!c.begin(unit)) continue;
    Runner<S> r(c, unit); r.injected(nseg, j, k, Tvals[ti]);
    ++c.st.evaluations; c.st.cls(fmt("%s/injected", order_name(S)));
    std::string key = fmt("inj/S%d/%d/%d/%d/%d", S, nseg, j, k, ti);
    if (!c.st.seen(key) && k >= S) ++c.st.nontrivial;  // at least one row that enters the energy
    if (my % 331 == 0) c.st.sample(fmt("unit %ld: %s D=%d injected coefficients: %d segment(s), unit rows (%d,%d), T=%g -> getEnergy vs exact product integration", my, order_name(S), D, nseg, j, k, Tvals[ti]));
  }
  // (b) public route over the duration lattice, any scale
  std::vector<double> sigmas = th ? std::vector<double>{9.313225746154785e-10, 9.5367431640625e-07, 0.015625, 0.125, 1.0, 8.0, 64.0, 1024.0} : std::vector<double>{9.313225746154785e-10, 9.5367431640625e-07, 0.125, 1.0, 8.0, 1024.0};
  const int Nmax3 = th ? 7 : 4;
  for (int N = 1; N <= (th ? 10 : 6); ++N) {
    int base = N <= Nmax3 ? 3 : 2;
    long nw = ipow(base, N);
    for (long w = 0; w < nw; ++w) for (size_t si = 0; si < sigmas.size(); ++si) {
      long my = id++;
      if (!c.mine(my)) continue;
      std::string unit = str(my);
      if (!c.begin(unit)) continue;
      const double *L = letters(S);
      std::vector<double> T(N);
      { long ww = w; for (int i = 0; i < N; ++i) { int l = ww % base; ww /= base; T[i] = (base == 3 ? L[l] : (l == 0 ? L[0] : L[2])) * sigmas[si]; } }
      Runner<S> r(c, unit); r.run_case(N, T, (w % 2) ? -2.5 : 1024.125);
      ++c.st.evaluations; c.st.cls(fmt("%s/public/N%s", order_name(S), N == 1 ? "=1" : N == 2 ? "=2" : ">=3"));
      std::string key = fmt("pub/S%d/N%d/b%d/w%ld/s%zu", S, N, base, w, si);
      if (!c.st.seen(key)) ++c.st.nontrivial;
      if (my % 331 == 0) c.st.sample(fmt("unit %ld: %s D=%d N=%d word=%s sigma=%g: getEnergy vs exact integral of the published polynomials for %d basis data + generic; sum over coordinates", my, order_name(S), D, N, word_str(N, w, base).c_str(), sigmas[si], nbasis(S, N)));
    }
  }
  // (c) long splines: segment counts around the powers of two (blocked / unrolled summations change behaviour exactly there; seeded
  //     change C04-m6: the last full block of 32 counted twice), uniform and alternating durations, generic data
  for (int N : {15, 16, 17, 31, 32, 33, 63, 64, 65, 96, 128}) for (int pat = 0; pat < 2; ++pat) {
    long my = id++; if (!c.mine(my)) continue; std::string unit = str(my); if (!c.begin(unit)) continue;
    const double *L = letters(S); std::vector<double> T(N); for (int i = 0; i < N; ++i) T[i] = pat == 0 ? L[1] : ((i & 1) ? L[1] : L[1] * 0.5);
    Runner<S> r(c, unit); Prob p; p.N = N; p.T = T; p.t0 = pat ? -2.5 : 1024.125; set_generic_data(p, (uint64_t)c.args.seed * 1000 + N); r.check_public(p);
    ++c.st.evaluations; c.st.cls(fmt("%s/public/long", order_name(S))); if (!c.st.seen(fmt("long/S%d/N%d/%d", S, N, pat))) ++c.st.nontrivial;
    if (N == 32) c.st.sample(fmt("unit %ld: %s D=%d N=%d %s durations, generic data: getEnergy vs exact integral; re-fitted object; sum over coordinates", my, order_name(S), D, N, pat ? "alternating" : "uniform"));
  }
  // default-constructed spline reports zero energy
  { long my = id++; if (c.mine(my) && c.begin(str(my))) { Spl<S, D> e; ++c.st.evaluations; ++c.st.comparisons; c.st.seen(fmt("empty/S%d", S)); if (e.getEnergy() != 0.0) c.st.violate(str(my), fmt("%s: default-constructed spline reports non-zero energy", order_name(S))); } }
}

int main(int argc, char **argv) {
  Args a = parse_args(argc, argv);
  return supervise(a, [&](Ctx &c) {
    long id = 0;
    explore<2>(c, id); explore<3>(c, id); explore<4>(c, id);
    c.st.notes["dim"] = str(D);
  });
}
