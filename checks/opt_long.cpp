// opt_long.cpp -- long runs on SplineOptimizer objects and workspaces (C10): ONE parameter swept to a large bound instead of the history
// length, which the BFS of opt_hist.cpp bounds at 4..8. A counter, generation stamp or grow-only buffer that misbehaves only after hundreds or
// tens of thousands of uses (cf. seeded change C11-m12, an 8-bit revision stamp) is out of the BFS's reach and exactly in this sweep's.
//   (w) the n-th evaluation on ONE long-lived workspace (explicit and built-in), n = 1..NMAX, two optimizers / two decision vectors alternating:
//       every result equals the one of a fresh workspace, bitwise
//   (r) n reconfigurations (flags / initial state alternating) with no query in between, n = 1..NMAX: a COPY taken after each reports the layout
//       model's dimension and evaluates like a freshly configured optimizer (checked at every n for the dimension, every 64th n for evaluate)
// -DVORDER=2|3|4
#include "optkit.hpp"
#include "canon.hpp"
#include "explore.hpp"
#include <memory>
#ifndef VORDER
#define VORDER 3
#endif
using namespace vf;
static const int D = 2, S = VORDER, ORD = 2 * S - 1;
typedef Spl<S, D> Sp;
typedef SplineOptimizer<D, Sp, VTimeMap, VMap<D>> Opt;
typedef Opt::Workspace WS;

int main(int argc, char **argv) {
  Args a = parse_args(argc, argv);
  return supervise(a, [&](Ctx &c) {
    const long NMAX = 70000;
    std::vector<Problem<D>> ps = {opt_problem<D>(S, 3, 42, 1.5), opt_problem<D>(S, 2, 43, -0.5), opt_problem<D>(S, 4, 44, 0.25)};
    TimeCost tc; WaypointCost wc; RunCost<D> rc = RunCost<D>::mode(9);
    // ---- (w) ----
    {
      std::string unit = fmt("%s: n-th evaluation on one workspace, n=1..%ld", order_name(S), NMAX);
      if (c.begin(unit)) { ++c.st.evaluations;
        Opt A, B; for (Opt *o : {&A, &B}) { o->setOptimizationFlags(flags_of(o == &A ? 0x22 : 0xff)); o->setEnergyWeights(0.25); o->setIntegralNumSteps(2); }
        A.setInitState(ps[0].T, ps[0].P, ps[0].t0, ps[0].bc); B.setInitState(ps[2].T, ps[2].P, ps[2].t0, ps[2].bc);
        Eigen::VectorXd xs[4]; double want_c[4]; Eigen::VectorXd want_g[4];
        for (int k = 0; k < 4; ++k) { Opt &o = (k & 1) ? B : A; xs[k] = o.generateInitialGuess(); if (k & 2) for (int i = 0; i < xs[k].size(); ++i) xs[k](i) += (((i * 7) % 11) - 5) / 32.0; WS f; want_c[k] = o.evaluate(xs[k], want_g[k], tc, wc, rc, &f); }
        WS ws; bool ok = true;
        for (long n = 1; n <= NMAX && ok; ++n) { int k = (int)((n * 5 + n / 7) % 4); Opt &o = (k & 1) ? B : A; Eigen::VectorXd g, gb; ++c.st.comparisons;
          double cv = o.evaluate(xs[k], g, tc, wc, rc, &ws), cb = o.evaluate(xs[k], gb, tc, wc, rc);
          if (!bits_equal(cv, want_c[k]) || g.size() != want_g[k].size() || !bits_equal(g.data(), want_g[k].data(), g.size())) { ok = false; c.st.violate(unit, fmt("%s: evaluation number %ld on one explicit workspace (cost %.17g) differs from the same call on a fresh workspace (%.17g)", order_name(S), n, cv, want_c[k]), {{"what", "long-run"}}); }
          else if (!bits_equal(cb, want_c[k]) || gb.size() != want_g[k].size() || !bits_equal(gb.data(), want_g[k].data(), gb.size())) { ok = false; c.st.violate(unit, fmt("%s: evaluation number %ld on the built-in workspace (cost %.17g) differs from the same call on a fresh workspace (%.17g)", order_name(S), n, cb, want_c[k]), {{"what", "long-run"}}); }
          if ((n & 1023) == 0 && c.out_of_time()) break; }
        c.st.cls("long runs: evaluations on one workspace"); if (!c.st.seen(unit)) ++c.st.nontrivial; }
    }
    // ---- (r) ----
    {
      std::string unit = fmt("%s: n silent reconfigurations, copy observed, n=1..%ld", order_name(S), NMAX);
      if (c.begin(unit)) { ++c.st.evaluations;
        static const unsigned MASKS[3] = {0x00, 0xff, 0x22};
        Opt X; X.setEnergyWeights(0.25); X.setIntegralNumSteps(2); X.setInitState(ps[0].T, ps[0].P, ps[0].t0, ps[0].bc); (void)X.getDimension();
        int prob = 0; unsigned mask = 0; bool ok = true;
        for (long n = 1; n <= NMAX && ok; ++n) {
          if (n % 3 == 0) { prob = (int)((n / 3) % 3); X.setInitState(ps[prob].T, ps[prob].P, ps[prob].t0, ps[prob].bc); } else { mask = MASKS[(n + n / 5) % 3]; X.setOptimizationFlags(flags_of(mask)); }
          Layout L = layout_model(ORD, ps[prob].N, D, mask, [&](int) { return D; });
          Opt cp(X); ++c.st.comparisons;
          if (!cp.isValid() || cp.getDimension() != L.total) { ok = false; c.st.violate(unit, fmt("%s: after %ld reconfigurations with no query in between, a copy reports dimension %d, the layout model gives %d", order_name(S), n, cp.getDimension(), L.total), {{"what", "long-run"}}); break; }
          if (n % 64 == 0 || n < 600) { Opt fresh; fresh.setEnergyWeights(0.25); fresh.setIntegralNumSteps(2); fresh.setOptimizationFlags(flags_of(mask)); fresh.setInitState(ps[prob].T, ps[prob].P, ps[prob].t0, ps[prob].bc);
            Eigen::VectorXd x(L.total), g1, g2; for (int i = 0; i < L.total; ++i) x(i) = 1.0 + i / 64.0; WS w1, w2; double c1 = cp.evaluate(x, g1, tc, wc, rc, &w1), c2 = fresh.evaluate(x, g2, tc, wc, rc, &w2);
            if (!bits_equal(c1, c2) || g1.size() != g2.size() || !bits_equal(g1.data(), g2.data(), g1.size())) { ok = false; c.st.violate(unit, fmt("%s: after %ld reconfigurations with no query in between, a copy evaluates to %.17g, a freshly configured optimizer to %.17g", order_name(S), n, c1, c2), {{"what", "long-run"}}); } }
          if ((n & 1023) == 0 && c.out_of_time()) break; }
        c.st.cls("long runs: silent reconfigurations"); if (!c.st.seen(unit)) ++c.st.nontrivial; }
    }
  });
}
