// C12 -- evaluation is schedule-independent and safe to run concurrently (E3 schedule explorer).
//   -DVMODE=0 : scheduler build (parts a, b, c)      -DVMODE=1 : free-running build for ThreadSanitizer (part d)
//   -DVMODE=2 : free-running build with -fopenmp exercising the library's own OpenMPExecutor (part e)
#ifndef VMODE
#define VMODE 0
#endif
#if VMODE == 0
#include "sched.hpp"
static bool g_sched_runcost = false;
static inline void vf_sched_point(const char *tag) { if (tag[0] == 'r' && !g_sched_runcost) return; e3::sched_point(tag); }
#define VF_SCHED_POINT(tag) vf_sched_point(tag)
#endif
#include "optkit.hpp"
#include <condition_variable>
#include <functional>
#include <mutex>
#include <thread>
#if VMODE == 2
#include <omp.h>
#endif
#include <thread>
#include <algorithm>
using namespace vf;
static const int D = 2;

template <int S> struct Setup {
  typedef Spl<S, D> Sp;
  typedef SplineOptimizer<D, Sp, VTimeMap, VMap<D>> Opt;
  typedef typename Opt::Workspace WS;
  VTimeMap utm{0.125}; VMap<D> usm{1, 1.5, 0.25};
  std::unique_ptr<Opt> opt; Problem<D> prob; TimeCost tc; WaypointCost wc; RunCost<D> rc; int N, K; unsigned mask; bool user_maps;
  Setup(int N_, int K_, unsigned mask_, bool user_maps_ = true) : N(N_), K(K_), mask(mask_), user_maps(user_maps_) {
    prob = opt_problem<D>(S, N, 77 + N); rc = RunCost<D>::mode(9);
    Lcg g(5); for (int i = 0; i <= N; ++i) { Eigen::VectorXd xi(map_for_setup().getUnconstrainedDimNoSched(i)); for (int q = 0; q < xi.size(); ++q) xi(q) = g.dyadic() * 0.5; Eigen::VectorXd p = map_for_setup().toPhysical(xi, i); for (int d = 0; d < D; ++d) prob.P(i, d) = p(d); }
  }
  const VMap<D> &map_for_setup() const { static VMap<D> dflt; return user_maps ? usm : dflt; }
  void fresh(bool warm) {   // a freshly configured optimizer; `warm` = one prior single-threaded const call
    opt.reset(new Opt());
    if (user_maps) { opt->setTimeMap(&utm); opt->setSpatialMap(&usm); }
    opt->setOptimizationFlags(flags_of(mask)); opt->setEnergyWeights(0.25); opt->setIntegralNumSteps(K);
    if (!opt->setInitState(prob.T, prob.P, prob.t0, prob.bc)) abort();
    if (warm) (void)opt->getDimension();
  }
  Eigen::VectorXd xvec(int j) { fresh(true); Eigen::VectorXd x = opt->generateInitialGuess(); for (int i = 0; i < x.size(); ++i) x(i) += (((i * 7 + j * 3) % 11) - 5) / 32.0; return x; }
};

struct PermExec { const std::vector<int> *perm; template <class F> void operator()(int start, int, F &&f) const { for (int i : *perm) f(start + i); } };

#if VMODE == 0
// executor that distributes the segments over managed worker threads (assignment[i] = worker of segment i)
struct PartExec {
  const std::vector<int> *assign; int workers;
  template <class F> void operator()(int start, int end, F &&f) const {
    std::vector<int> ids;
    for (int w = 0; w < workers; ++w) ids.push_back(e3::spawn([&, w] { for (int i = start; i < end; ++i) if ((*assign)[i - start] == w) { e3::sched_point("seg"); f(i); } }));
    for (int id : ids) e3::join(id);
  }
};
#elif VMODE == 1
struct ThreadExec {
  const std::vector<int> *assign; int workers;
  template <class F> void operator()(int start, int end, F &&f) const {
    std::vector<std::thread> ts;
    for (int w = 0; w < workers; ++w) ts.emplace_back([&, w] { for (int i = start; i < end; ++i) if ((*assign)[i - start] == w) f(i); });
    for (auto &t : ts) t.join();
  }
};
#endif

static std::string sched_str(const std::vector<int> &c) { std::string s; for (size_t i = 0; i < c.size(); ++i) { if (i) s += '.'; s += str(c[i]); } return s; }
static std::vector<int> sched_parse(const std::string &s) { std::vector<int> h; std::stringstream ss(s); std::string t; while (std::getline(ss, t, '.')) if (!t.empty()) h.push_back(atoi(t.c_str())); return h; }

template <int S> static void part_a(Ctx &c, long &id) {  // all permutations of the segment order
  const bool th = c.args.thorough();
  for (int N = 1; N <= (th ? 7 : 5); ++N) for (int K : {1, 3}) {
    long my = id++; if (!c.mine(my)) continue; std::string unit = fmt("a:%ld", my); if (!c.begin(unit)) continue;
    Setup<S> s(N, K, 0xff); Eigen::VectorXd x = s.xvec(0), g0; s.fresh(false);
    typename Setup<S>::WS w0; const double c0 = s.opt->evaluate(x, g0, s.tc, s.wc, s.rc, &w0, SerialExecutor());
    std::vector<int> perm(N); for (int i = 0; i < N; ++i) perm[i] = i; long nperm = 0;
    do { typename Setup<S>::WS w; Eigen::VectorXd g; PermExec pe{&perm}; const double cp = s.opt->evaluate(x, g, s.tc, s.wc, s.rc, &w, pe); ++c.st.comparisons; ++nperm;
      if (!bits_equal(cp, c0) || g.size() != g0.size() || !bits_equal(g.data(), g0.data(), g.size())) { c.st.violate(unit, fmt("%s N=%d K=%d: executor order %s gives a cost/gradient that is not bit-identical to serial execution", order_name(S), N, K, sched_str(perm).c_str()), {{"what", "executor-order"}}); break; }
    } while (std::next_permutation(perm.begin(), perm.end()));
    // the same with a cost that is infeasible (+inf, finite gradients) on ONE segment, for every choice of that segment: the cost is +inf under
    // every order and the gradient -- the contributions of ALL segments -- is the serial one, bit for bit (seeded change C12-m8: an early-out
    // flag shared by the per-segment work makes the finite entries depend on which segments ran before the infeasible one)
    for (int bad = 0; bad < N && N >= 2 && N <= 5; ++bad) { auto rcb = s.rc; rcb.inf_seg = bad; typename Setup<S>::WS wb0; Eigen::VectorXd gb0; const double cb0 = s.opt->evaluate(x, gb0, s.tc, s.wc, rcb, &wb0, SerialExecutor());
      for (int i = 0; i < N; ++i) perm[i] = i;
      do { typename Setup<S>::WS w; Eigen::VectorXd g; PermExec pe{&perm}; const double cp = s.opt->evaluate(x, g, s.tc, s.wc, rcb, &w, pe); ++c.st.comparisons; ++nperm;
        if (!bits_equal(cp, cb0) || g.size() != gb0.size() || !bits_equal(g.data(), gb0.data(), g.size())) { c.st.violate(unit, fmt("%s N=%d K=%d: running cost +inf on segment %d: executor order %s gives a cost/gradient that is not bit-identical to serial execution", order_name(S), N, K, bad, sched_str(perm).c_str()), {{"what", "executor-order(infeasible segment)"}}); bad = N; break; }
      } while (std::next_permutation(perm.begin(), perm.end())); }
    // a user-written executor that visits the segments in ascending order (another TYPE than SerialExecutor) at 16 further decision vectors:
    // a reduction that is re-associated for non-library executors differs only for some inputs
    { std::vector<int> asc(N); for (int i = 0; i < N; ++i) asc[i] = i; PermExec pe{&asc};
      for (int j = 1; j <= 16; ++j) { Eigen::VectorXd xj = s.xvec(j), ga, gb; s.fresh(false); typename Setup<S>::WS wa, wb; const double ca = s.opt->evaluate(xj, ga, s.tc, s.wc, s.rc, &wa, SerialExecutor()), cb = s.opt->evaluate(xj, gb, s.tc, s.wc, s.rc, &wb, pe); ++c.st.comparisons;
        if (!bits_equal(ca, cb) || !bits_equal(ga.data(), gb.data(), ga.size())) { c.st.violate(unit, fmt("%s N=%d K=%d: a user executor visiting the segments in ascending order returns cost %.17g, SerialExecutor %.17g (decision vector #%d)", order_name(S), N, K, cb, ca, j), {{"what", "executor-type"}}); break; } } }
    ++c.st.evaluations; if (!c.st.seen(fmt("a/%d/%d/%d", S, N, K)) && N >= 2) ++c.st.nontrivial; c.st.cls("(a) executor permutations", nperm);
    if (N == 4) c.st.sample(fmt("unit %s: %s N=%d K=%d: all %ld permutations of the segment order vs SerialExecutor, bitwise", unit.c_str(), order_name(S), N, K, nperm));
  }
}

#if VMODE == 0
struct E3Acc { long execs = 0, maxpoints = 0; std::set<uint64_t> traces; };
template <class Bodies, class Reset, class Check>
static void run_e3(Ctx &c, const std::string &unit, const std::string &what, const std::string &key, int bound, Bodies &bodies, Reset reset, Check check, E3Acc &acc, int part = 0, int nparts = 1) {
  if (c.args.has_only) {  // replay "<unit>|<schedule>"
    return;
  }
  for (int b = 0; b <= bound; ++b) {
    e3::Stats st; std::vector<e3::Bad> bad;
    e3::explore(bodies, reset, check, b, {}, st, bad, [&] { return now_s() < c.deadline; }, part, nparts);
    if (now_s() >= c.deadline) { if (c.st.exhaustive) { c.st.exhaustive = false; c.st.first_unexplored = unit + fmt(" at preemption bound %d", b); } }
    c.st.comparisons += st.execs; acc.execs += st.execs; acc.maxpoints = std::max(acc.maxpoints, (long)st.maxpoints); for (uint64_t t : st.traces) { acc.traces.insert(t); c.st.distinct.insert(t ^ hash_str(unit)); }
    c.st.cls(fmt("%s: schedules executed while iterating to preemption bound %d", key.c_str(), b), st.execs);
    if (!bad.empty()) {
      for (auto &bd : bad) c.st.violate(unit + "|" + sched_str(bd.choices), fmt("%s: preemption bound %d: schedule [%s]: %s (%ld of %ld schedules at this bound violate; %ld crashes, %ld deadlocks, %ld hangs)", what.c_str(), b, sched_str(bd.choices).c_str(), bd.msg.c_str(), st.violations, st.execs, st.crashes, st.deadlocks, st.hangs), {{"what", what}, {"bound", str(b)}});
      return;  // the first counterexample has the fewest preemptions
    }
  }
}

template <int S> static void part_b(Ctx &c, long &id) {  // partitions of the segments onto worker threads, all interleavings
  const bool th = c.args.thorough(); const int W = th ? 3 : 2;
  for (int N = 2; N <= (th ? 4 : 3); ++N) {
    long nas = ipow(W, N);
    for (long a = 0; a < nas; ++a) {
      long my = id++; std::string unit = fmt("b:%ld", my);
      bool replay = c.args.has_only && c.args.only.compare(0, unit.size() + 1, unit + "|") == 0;
      if (!replay && (!c.mine(my) || c.args.has_only)) continue;
      std::vector<int> assign(N); { long aa = a; for (int i = 0; i < N; ++i) { assign[i] = aa % W; aa /= W; } }
      Setup<S> s(N, 1, 0xff); Eigen::VectorXd x = s.xvec(0), g0; s.fresh(false);
      typename Setup<S>::WS w0; const double c0 = s.opt->evaluate(x, g0, s.tc, s.wc, s.rc, &w0, SerialExecutor());
      double cr = 0; Eigen::VectorXd gr; std::unique_ptr<typename Setup<S>::WS> ws;
      std::vector<std::function<void()>> bodies; PartExec pe{&assign, W};
      bodies.push_back([&] { cr = s.opt->evaluate(x, gr, s.tc, s.wc, s.rc, ws.get(), pe); });
      auto reset = [&] { s.fresh(true); ws.reset(new typename Setup<S>::WS()); cr = 0; gr.resize(0); g_sched_runcost = true; };
      auto check = [&](const e3::Exec &) { if (!bits_equal(cr, c0) || gr.size() != g0.size() || !bits_equal(gr.data(), g0.data(), gr.size())) return fmt("cost/gradient not bit-identical to serial execution (cost %.17g vs %.17g)", cr, c0); return std::string(); };
      std::string what = fmt("(b) %s N=%d segments on %d workers, assignment %s", order_name(S), N, W, sched_str(assign).c_str());
      if (replay) { if (!c.begin(c.args.only)) continue; std::vector<int> sch = sched_parse(c.args.only.substr(unit.size() + 1)); e3::Outcome o1 = e3::run_forked(bodies, reset, check, sch), o2 = e3::run_forked(bodies, reset, check, sch); ++c.st.evaluations; ++c.st.comparisons;
        if (o1.ok != o2.ok || o1.x.trace != o2.x.trace) c.st.violate(c.args.only, "replay nondeterministic"); else if (!o1.ok) c.st.violate(c.args.only, what + ": " + o1.msg); continue; }
      if (!c.begin(unit)) continue;
      E3Acc acc; run_e3(c, unit, what, "(b) executor partitions", 2, bodies, reset, check, acc);
      ++c.st.evaluations; ++c.st.nontrivial; c.st.notes[unit] = fmt("%s: %ld schedules, %zu distinct interleaving traces, up to %ld scheduling points", what.c_str(), acc.execs, acc.traces.size(), acc.maxpoints);
      if (a == 1) c.st.sample(fmt("unit %s: %s: all interleavings with <= 2 preemptions (%ld schedules, %zu distinct traces); scheduling points before each segment and inside each running-cost call", unit.c_str(), what.c_str(), acc.execs, acc.traces.size()));
    }
  }
}

template <int S> static void part_c(Ctx &c, long &id) {  // concurrent evaluate() calls on one optimizer, cold and warm
  const bool th = c.args.thorough(); const int NT = th ? 3 : 2, bound = th ? 3 : 2;
  const int NPARTS = th ? 8 : 1;   // large units are split over several processes (disjoint sets of subtrees below the root execution)
  for (int warm = 0; warm < 2; ++warm) for (unsigned mask : {0x00u, 0xffu}) for (int usermaps = 1; usermaps >= 0; --usermaps) for (int part = 0; part < NPARTS; ++part) {
    long my = id++; std::string unit = fmt("c:%ld", my);
    bool replay = c.args.has_only && c.args.only.compare(0, unit.size() + 1, unit + "|") == 0;
    if (!replay && (!c.mine(my) || c.args.has_only)) continue;
    const int N = 3; Setup<S> s(N, 1, mask, usermaps);
    std::vector<Eigen::VectorXd> xs, gser(NT), gpar(NT); std::vector<double> cser(NT), cpar(NT);
    for (int j = 0; j < NT; ++j) xs.push_back(s.xvec(j));
    s.fresh(false); for (int j = 0; j < NT; ++j) { typename Setup<S>::WS w; cser[j] = s.opt->evaluate(xs[j], gser[j], s.tc, s.wc, s.rc, &w); }
    const int dim = s.opt->getDimension();
    std::vector<std::function<void()>> bodies;
    for (int j = 0; j < NT; ++j) bodies.push_back([&, j] { typename Setup<S>::WS w; cpar[j] = s.opt->evaluate(xs[j], gpar[j], s.tc, s.wc, s.rc, &w); });
    auto reset = [&] { s.fresh(warm); g_sched_runcost = false; for (int j = 0; j < NT; ++j) { cpar[j] = 0; gpar[j].resize(0); } };
    auto check = [&](const e3::Exec &) { for (int j = 0; j < NT; ++j) if (!bits_equal(cpar[j], cser[j]) || gpar[j].size() != gser[j].size() || !bits_equal(gpar[j].data(), gser[j].data(), gser[j].size())) return fmt("thread %d: evaluate() returned cost %.17g (serial %.17g) or a different gradient", j, cpar[j], cser[j]); if (s.opt->getDimension() != dim) return std::string("getDimension() changed"); return std::string(); };
    std::string what = fmt("(c) %s: %d threads x evaluate() on one %s optimizer (flags 0x%02x, %s maps), own workspaces", order_name(S), NT, warm ? "warm" : "cold", mask, usermaps ? "user" : "default");
    if (replay) { if (!c.begin(c.args.only)) continue; std::vector<int> sch = sched_parse(c.args.only.substr(unit.size() + 1)); e3::Outcome o1 = e3::run_forked(bodies, reset, check, sch), o2 = e3::run_forked(bodies, reset, check, sch); ++c.st.evaluations; ++c.st.comparisons;
      if (o1.ok != o2.ok || o1.x.trace != o2.x.trace) c.st.violate(c.args.only, "replay nondeterministic"); else if (!o1.ok) c.st.violate(c.args.only, what + ": " + o1.msg); continue; }
    if (!c.begin(unit)) continue;
    if (NPARTS > 1) what += fmt(" [part %d/%d of the schedule tree]", part, NPARTS);
    E3Acc acc; run_e3(c, unit, what, fmt("(c) concurrent evaluate, %s", warm ? "warm" : "cold"), bound, bodies, reset, check, acc, part, NPARTS);
    ++c.st.evaluations; ++c.st.nontrivial; c.st.notes[unit] = fmt("%s: %ld schedules up to %d preemptions, %zu distinct interleaving traces, up to %ld scheduling points", what.c_str(), acc.execs, bound, acc.traces.size(), acc.maxpoints);
    c.st.sample(fmt("unit %s: %s: all schedules with <= %d preemptions: %ld schedules, %zu distinct traces; points at mutex lock/unlock and in every call-out to the time/spatial map", unit.c_str(), what.c_str(), bound, acc.execs, acc.traces.size()), 12);
  }
}
#elif VMODE == 1
// a pool of worker threads that exist BEFORE evaluate() is called (per-thread state set up inside the call -- floating-point control bits, thread-local
// scratch -- does not reach them, unlike threads spawned inside the call)
struct Pool {
  std::vector<std::thread> th; std::mutex m; std::condition_variable cv, done; std::function<void(int)> job; int gen = 0, pending = 0, nw; bool stop = false;
  explicit Pool(int n) : nw(n) { for (int w = 0; w < n; ++w) th.emplace_back([this, w] { int seen = 0; for (;;) { std::unique_lock<std::mutex> lk(m); cv.wait(lk, [&] { return stop || gen != seen; }); if (stop) return; seen = gen; auto j = job; lk.unlock(); j(w); lk.lock(); if (--pending == 0) done.notify_all(); } }); }
  ~Pool() { { std::lock_guard<std::mutex> lk(m); stop = true; } cv.notify_all(); for (auto &t : th) t.join(); }
  void run(const std::function<void(int)> &j) { std::unique_lock<std::mutex> lk(m); job = j; pending = nw; ++gen; cv.notify_all(); done.wait(lk, [&] { return pending == 0; }); }
};
struct PoolExec { Pool *p; template <class F> void operator()(int start, int end, F &&f) const { p->run([&](int w) { for (int i = start + w; i < end; i += p->nw) f(i); }); } };
// every public query of a spline object of its own, as raw bytes (for part (g))
template <int S> static std::string full_query(int seed) {
  typedef Spl<S, D> Sp; typedef typename Sp::MatrixType Mat; const int M = 2 * S; std::string out; auto put = [&](const double *p, size_t n) { out.append((const char *)p, n * sizeof(double)); };
  for (int N : {3, 1, 4}) { Problem<D> p = opt_problem<D>(S, N, 900 + seed * 10 + N, 0.5 * seed); Problem<D> q = opt_problem<D>(S, N, 950 + seed * 10 + N, -1.0);
    Sp s(q.T, q.P, q.t0, q.bc); (void)s.getEnergy(); s.update(p.T, p.P, p.t0, p.bc); { Sp s2(p.timepoints(), p.P, p.bc); put(s2.getTrajectory().getCoefficients().data(), (size_t)s2.getTrajectory().getCoefficients().size()); }
    const auto &tr = s.getTrajectory(); put(tr.getCoefficients().data(), (size_t)tr.getCoefficients().size()); put(tr.getBreakpoints().data(), tr.getBreakpoints().size());
    double e = s.getEnergy(); put(&e, 1); auto eg = s.getEnergyGrad(); put(eg.times.data(), (size_t)eg.times.size()); put(eg.inner_points.data(), (size_t)eg.inner_points.size()); put(eg.start.v.data(), D); put(eg.end.v.data(), D);
    Mat pc = s.getEnergyPartialGradByCoeffs(); Eigen::VectorXd pt = s.getEnergyPartialGradByTimes(); put(pc.data(), (size_t)pc.size()); put(pt.data(), (size_t)pt.size());
    Mat g = Mat::Constant(M * N, D, 0.25); for (int r = 0; r < M * N; ++r) g(r, r % D) += 0.125 * (r % 5); Eigen::VectorXd gt = Eigen::VectorXd::Constant(N, -0.5); auto pg = s.propagateGrad(g, gt); put(pg.times.data(), (size_t)pg.times.size()); put(pg.inner_points.data(), (size_t)pg.inner_points.size()); put(pg.start.p.data(), D); put(pg.end.p.data(), D);
    int hint = 0; std::vector<double> seq = tr.generateTimeSequence(0.25 * tr.getDuration()); put(seq.data(), seq.size());
    for (double t : seq) for (int k = 0; k <= 2; ++k) { auto v = tr.evaluate(t, k), h = tr.evaluate(t, &hint, k); put(v.data(), D); put(h.data(), D); } { auto bv = tr.evaluate(seq, 1); for (auto &v : bv) put(v.data(), D); }
    auto d1 = tr.derivative(1); put(d1.getCoefficients().data(), (size_t)d1.getCoefficients().size()); double len = tr.getTrajectoryLength(0.125 * tr.getDuration()); put(&len, 1);
    typename Sp::TrajectoryType::VectorType cv; for (int d = 0; d < D; ++d) cv(d) = 1.5 - d; auto kc = Sp::TrajectoryType::constant(tr.getBreakpoints(), cv); auto kv = kc.evaluate(tr.getStartTime(), 0); put(kv.data(), D); }
  return out;
}
// (d) free-running pass under ThreadSanitizer: same thread bodies, no scheduler; any report aborts the process (exitcode)
template <int S> static void part_d(Ctx &c, long &id) {
  const int reps = c.args.thorough() ? 60 : 20;
  for (int warm = 0; warm < 2; ++warm) for (unsigned mask : {0x00u, 0xffu}) {
    long my = id++; if (!c.mine(my)) continue; std::string unit = fmt("d:%ld", my); if (!c.begin(unit)) continue;
    const int N = 3, NT = 3; Setup<S> s(N, 2, mask);
    std::vector<Eigen::VectorXd> xs, gser(NT); std::vector<double> cser(NT); for (int j = 0; j < NT; ++j) xs.push_back(s.xvec(j));
    s.fresh(false); for (int j = 0; j < NT; ++j) { typename Setup<S>::WS w; cser[j] = s.opt->evaluate(xs[j], gser[j], s.tc, s.wc, s.rc, &w); }
    for (int r = 0; r < reps; ++r) {
      s.fresh(warm); std::vector<Eigen::VectorXd> g(NT); std::vector<double> cc(NT); std::vector<std::thread> ts;
      for (int j = 0; j < NT; ++j) ts.emplace_back([&, j] { typename Setup<S>::WS w; cc[j] = s.opt->evaluate(xs[j], g[j], s.tc, s.wc, s.rc, &w); });
      for (auto &t : ts) t.join(); ++c.st.comparisons;
      for (int j = 0; j < NT; ++j) if (!bits_equal(cc[j], cser[j]) || g[j].size() != gser[j].size() || !bits_equal(g[j].data(), gser[j].data(), g[j].size())) { c.st.violate(unit, fmt("free-running: %s %s flags 0x%02x: thread %d result differs from the serial call", order_name(S), warm ? "warm" : "cold", mask, j), {{"what", "free-running"}}); break; }
    }
    ++c.st.evaluations; ++c.st.nontrivial; c.st.seen(unit + order_name(S)); c.st.cls("(d) free-running concurrent evaluate under TSan", reps);
    c.st.sample(fmt("unit %s: %s %s optimizer flags 0x%02x: %d repetitions of 3 free-running threads calling evaluate(); ThreadSanitizer monitors (a report aborts the run)", unit.c_str(), order_name(S), warm ? "warm" : "cold", mask, reps));
  }
  // threaded executor
  for (int N : {2, 4}) { long my = id++; if (!c.mine(my)) continue; std::string unit = fmt("d:%ld", my); if (!c.begin(unit)) continue;
    Setup<S> s(N, 2, 0xff); Eigen::VectorXd x = s.xvec(0), g0; s.fresh(false); typename Setup<S>::WS w0; const double c0 = s.opt->evaluate(x, g0, s.tc, s.wc, s.rc, &w0, SerialExecutor());
    std::vector<int> assign(N); for (int i = 0; i < N; ++i) assign[i] = i % 2; ThreadExec te{&assign, 2};
    for (int r = 0; r < reps; ++r) { typename Setup<S>::WS w; Eigen::VectorXd g; double cp = s.opt->evaluate(x, g, s.tc, s.wc, s.rc, &w, te); ++c.st.comparisons; if (!bits_equal(cp, c0) || !bits_equal(g.data(), g0.data(), g0.size())) { c.st.violate(unit, fmt("free-running threaded executor: %s N=%d differs from serial", order_name(S), N), {{"what", "free-running"}}); break; } }
    ++c.st.evaluations; ++c.st.nontrivial; c.st.seen(unit + order_name(S)); c.st.cls("(d) free-running threaded executor under TSan", reps); }
  // (g) objects of their own on threads of their own: three threads each build, re-fit and fully query their OWN splines (same types, other data);
  //     every byte equals what the same program computes alone (no library state is shared between objects: seeded changes C02-m4, C05-m6,
  //     C01-m10 -- scratch buffers turned into function-local or class-level statics)
  { long my = id++; if (c.mine(my)) { std::string unit = fmt("d:%ld", my); if (c.begin(unit)) { const int NT = 3; std::vector<std::string> ser(NT); for (int j = 0; j < NT; ++j) ser[j] = full_query<S>(j);
      for (int r = 0; r < reps; ++r) { std::vector<std::string> par(NT); std::vector<std::thread> ts; for (int j = 0; j < NT; ++j) ts.emplace_back([&, j] { par[j] = full_query<S>(j); }); for (auto &t : ts) t.join(); ++c.st.comparisons;
        bool bad = false; for (int j = 0; j < NT; ++j) if (par[j] != ser[j]) { c.st.violate(unit, fmt("%s: thread %d working only on its own spline objects obtained other results than the same program run alone (repetition %d)", order_name(S), j, r), {{"what", "independent-objects"}}); bad = true; break; } if (bad) break; }
      ++c.st.evaluations; ++c.st.nontrivial; c.st.seen(unit + order_name(S)); c.st.cls("(g) independent spline objects on independent threads", reps);
      c.st.sample(fmt("unit %s: %s: %d repetitions of 3 free-running threads, each constructing / re-fitting / fully querying its own splines (N = 3, 1, 4; both overloads; energy, gradients, propagateGrad, plain / hinted / batch evaluation, derivative, length, factories), bitwise vs the same program run alone; ThreadSanitizer monitors", unit.c_str(), order_name(S), reps)); } } }
  // pre-existing worker pool, ordinary and SUBNORMAL cost scale (running cost weight 1e-310, no energy term, two-cost overload): the entries of the
  // gradient that only the running cost feeds are subnormal; they must be the serial ones bit for bit whichever thread integrates a segment
  // (seeded change C12-m10: flush-to-zero mode switched on for the calling thread only)
  for (int N : {3, 4}) for (int tiny = 0; tiny < 2; ++tiny) { long my = id++; if (!c.mine(my)) continue; std::string unit = fmt("d:%ld", my); if (!c.begin(unit)) continue;
    Setup<S> s(N, 2, 0xff); Eigen::VectorXd x = s.xvec(0), g0; s.fresh(false); s.opt->setEnergyWeights(0.0);
    RunCost<D> rc = RunCost<D>::mode(0); if (tiny) rc.ap = 1e-310; TimeCost tcz; tcz.mode = 0;
    typename Setup<S>::WS w0; const double c0 = s.opt->evaluate(x, g0, tcz, rc, &w0, SerialExecutor());
    Pool pool(2); PoolExec pe{&pool}; bool sub = false; for (int i = 0; i < g0.size(); ++i) sub = sub || (g0(i) != 0.0 && std::fabs(g0(i)) < 2.3e-308);
    if (tiny && !sub) { c.st.violate(unit, fmt("%s N=%d: a running cost of subnormal scale (weight 1e-310) leaves no subnormal entry in the gradient of the SERIAL evaluation: gradual underflow is not in effect on the calling thread after evaluate() (flush-to-zero switched on?)", order_name(S), N), {{"what", "pool-executor"}}); continue; }
    for (int r = 0; r < reps; ++r) { typename Setup<S>::WS w; Eigen::VectorXd g; double cp = s.opt->evaluate(x, g, tcz, rc, &w, pe); ++c.st.comparisons;
      if (!bits_equal(cp, c0) || g.size() != g0.size() || !bits_equal(g.data(), g0.data(), g0.size())) { c.st.violate(unit, fmt("pre-existing worker pool, %s cost scale: %s N=%d: cost/gradient differ from serial execution (cost %.17g vs %.17g)", tiny ? "subnormal" : "ordinary", order_name(S), N, cp, c0), {{"what", "pool-executor"}}); break; } }
    ++c.st.evaluations; ++c.st.nontrivial; c.st.seen(unit + order_name(S)); c.st.cls("(d) pre-existing worker pool executor", reps); }
}
#endif

#if VMODE == 2
// (e) the library's OpenMPExecutor (compiled with -fopenmp), free-running: a monitor, not an enumeration
template <int S> static void part_e(Ctx &c, long &id) {
  const int reps = c.args.thorough() ? 40 : 10;
  for (int N = 1; N <= 8; ++N) { long my = id++; if (!c.mine(my)) continue; std::string unit = fmt("e:%ld", my); if (!c.begin(unit)) continue;
    Setup<S> s(N, 2, 0xff); Eigen::VectorXd x = s.xvec(0), g0; s.fresh(false); typename Setup<S>::WS w0; const double c0 = s.opt->evaluate(x, g0, s.tc, s.wc, s.rc, &w0, SerialExecutor());
    for (int nt = 1; nt <= 4; ++nt) { omp_set_num_threads(nt); for (int r = 0; r < reps; ++r) { typename Setup<S>::WS w; Eigen::VectorXd g; double cp = s.opt->evaluate(x, g, s.tc, s.wc, s.rc, &w, OpenMPExecutor()); ++c.st.comparisons;
        if (!bits_equal(cp, c0) || g.size() != g0.size() || !bits_equal(g.data(), g0.data(), g0.size())) { c.st.violate(unit, fmt("OpenMPExecutor with %d threads: %s N=%d differs from SerialExecutor (cost %.17g vs %.17g)", nt, order_name(S), N, cp, c0), {{"what", "openmp-executor"}}); r = reps; nt = 5; } } }
    ++c.st.evaluations; ++c.st.nontrivial; c.st.seen(unit + order_name(S)); c.st.cls("(e) OpenMPExecutor vs SerialExecutor", 4 * reps); }
  // concurrent evaluate() calls issued by the threads of an OpenMP team / by std::threads, each with OpenMPExecutor or SerialExecutor
  for (int warm = 0; warm < 2; ++warm) for (int team = 0; team < 2; ++team) for (int ompexec = 0; ompexec < 2; ++ompexec) {
    long my = id++; if (!c.mine(my)) continue; std::string unit = fmt("e:%ld", my); if (!c.begin(unit)) continue;
    const int N = 4, NT = 3; Setup<S> s(N, 2, 0xff);
    std::vector<Eigen::VectorXd> xs, gser(NT); std::vector<double> cser(NT); for (int j = 0; j < NT; ++j) xs.push_back(s.xvec(j));
    s.fresh(false); for (int j = 0; j < NT; ++j) { typename Setup<S>::WS w; cser[j] = s.opt->evaluate(xs[j], gser[j], s.tc, s.wc, s.rc, &w); }
    omp_set_num_threads(NT); omp_set_max_active_levels(2);
    for (int r = 0; r < reps; ++r) {
      s.fresh(warm); std::vector<Eigen::VectorXd> g(NT); std::vector<double> cc(NT);
      auto body = [&](int j) { typename Setup<S>::WS w; cc[j] = ompexec ? s.opt->evaluate(xs[j], g[j], s.tc, s.wc, s.rc, &w, OpenMPExecutor()) : s.opt->evaluate(xs[j], g[j], s.tc, s.wc, s.rc, &w, SerialExecutor()); };
      if (team) {
#pragma omp parallel num_threads(NT)
        { body(omp_get_thread_num()); }
      } else { std::vector<std::thread> ts; for (int j = 0; j < NT; ++j) ts.emplace_back(body, j); for (auto &t : ts) t.join(); }
      ++c.st.comparisons; bool bad = false;
      for (int j = 0; j < NT; ++j) if (!bits_equal(cc[j], cser[j]) || g[j].size() != gser[j].size() || !bits_equal(g[j].data(), gser[j].data(), g[j].size())) { c.st.violate(unit, fmt("%s: %d concurrent evaluate() calls from %s with %s on a %s optimizer: caller %d got cost %.17g, serial %.17g", order_name(S), NT, team ? "an OpenMP team" : "std::threads", ompexec ? "OpenMPExecutor" : "SerialExecutor", warm ? "warm" : "cold", j, cc[j], cser[j]), {{"what", "openmp-concurrent"}}); bad = true; break; }
      if (bad) break;
    }
    ++c.st.evaluations; ++c.st.nontrivial; c.st.seen(unit + order_name(S)); c.st.cls("(e) concurrent evaluate with OpenMP", reps);
    c.st.sample(fmt("unit %s: %s, %d reps: 3 callers (%s) x evaluate() with %s on a %s optimizer vs the serial calls, bitwise", unit.c_str(), order_name(S), reps, team ? "threads of one OpenMP parallel region" : "std::threads", ompexec ? "the library's OpenMPExecutor" : "SerialExecutor", warm ? "warm" : "cold"), 4);
  }
}
#endif

int main(int argc, char **argv) {
  Args a = parse_args(argc, argv);
  return supervise(a, [&](Ctx &c) {
    long id = 0;
#if VMODE == 0
    part_a<2>(c, id); part_a<3>(c, id); part_a<4>(c, id);
    part_b<3>(c, id); if (c.args.thorough()) { part_b<2>(c, id); part_b<4>(c, id); }
    part_c<3>(c, id); if (c.args.thorough()) { part_c<2>(c, id); part_c<4>(c, id); }
#elif VMODE == 1
    part_d<2>(c, id); part_d<3>(c, id); part_d<4>(c, id);
#else
    part_e<2>(c, id); part_e<3>(c, id); part_e<4>(c, id);
#endif
  });
}
