// C10 (part 1) -- spline results depend only on the latest inputs, not on object history (E2; R5 fresh-object oracle, bitwise).
// -DVORDER=2|3|4 -DVDIM=<d>
#include "splinekit.hpp"
#include "canon.hpp"
#include "explore.hpp"
#include <memory>
#ifndef VORDER
#define VORDER 3
#endif
#ifndef VDIM
#define VDIM 3
#endif
using namespace vf;
static const int S = VORDER, D = VDIM, M = 2 * S;
typedef Spl<S, D> Sp;
typedef Sp::MatrixType Mat;
typedef Sp::Gradients Grads;

static const std::vector<Problem<D>> &problems() {
  static std::vector<Problem<D>> ps;
  if (ps.empty()) {
    auto mk = [&](int N, double t0, uint64_t seed, double a, double b) { Problem<D> p; p.N = N; p.t0 = t0; for (int i = 0; i < N; ++i) p.T.push_back((i % 2) ? b : a); set_generic_data(p, seed); return p; };
    // the first four problems share the duration pattern (1, 1.5, 1, 1.5, 1): each smaller one is a bit-identical PREFIX of the
    // larger ones, so a shrinking update meets unchanged leading durations (seeded change C10-m3: factorisation reused when "no
    // duration changed"); the fifth has other durations
    ps.push_back(mk(1, 0.0, 21, 1.0, 1.5)); ps.push_back(mk(2, -1.0, 22, 1.0, 1.5)); ps.push_back(mk(3, 2.5, 23, 1.0, 1.5)); ps.push_back(mk(5, 0.0, 24, 1.0, 1.5)); ps.push_back(mk(3, 0.125, 25, 2.0, 0.75));
    // sixth: the N = 3 problem's start time and total duration, its durations in another order (1.5, 1, 1): same knot count, same first and last
    // knot, other inner knots (seeded change C04-m8: "unchanged time grid" decided from the end points)
    { Problem<D> q = ps[2]; q.T = {1.5, 1.0, 1.0}; set_generic_data(q, 26); ps.push_back(q); }
  }
  return ps;
}
static void upstream(int N, int kind, Mat &g, Eigen::VectorXd &gt) {
  g = Mat::Zero(M * N, D); gt = Eigen::VectorXd::Zero(N);
  if (kind == 0) { g(M * N - 1, D - 1) = 1.0; }                                 // unit
  else { Lcg l(77); for (int r = 0; r < M * N; ++r) for (int d = 0; d < D; ++d) g(r, d) = l.dyadic(); for (int i = 0; i < N; ++i) gt(i) = l.dyadic(); }  // dense
}
template <class G> static void add_grads(Canon &c, const G &g) {
  c.mat(g.inner_points); c.mat(g.times); c.mat(g.start.p); c.mat(g.start.v); c.mat(g.end.p); c.mat(g.end.v);
  if constexpr (S >= 3) { c.mat(g.start.a); c.mat(g.end.a); }
  if constexpr (S >= 4) { c.mat(g.start.j); c.mat(g.end.j); }
}
// every observable of a spline, as raw bytes
// hint >= -1: evaluations go through the hinted overload, every query starting from a copy of that (possibly stale) caller-held hint
template <class G> static void dirty_fill(G &g, int n) {
  g.inner_points = Mat::Constant(std::max(0, n - 1), D, 7.5); g.times = Eigen::VectorXd::Constant(n, -7.5); g.start.p.setConstant(7.5); g.start.v.setConstant(7.5); g.end.p.setConstant(7.5); g.end.v.setConstant(7.5);
  if constexpr (S >= 3) { g.start.a.setConstant(7.5); g.end.a.setConstant(7.5); }
  if constexpr (S >= 4) { g.start.j.setConstant(7.5); g.end.j.setConstant(7.5); }
}
// refo: the gradient queries go through the REFERENCE-OUTPUT overloads, handed caller objects that still hold the results of other problems --
// an exactly fitting but dirty buffer, and a Gradients object last filled for a problem two segments larger (seeded changes C10-m9 / C10-m10:
// "only clear on (re)allocation", inner-point gradient not shrunk for a single segment)
static std::string observe(Sp &s, int N, int hint = -2, bool refo = false) {
  Canon c;
  typedef typename Sp::Gradients Grads;
  auto dirty_grads = [&](int n) { Grads g; dirty_fill(g, n); return g; };
  c.mat(s.getTrajectory().getCoefficients()); c.vec(s.getTrajectory().getBreakpoints()); c.vec(s.getCumulativeTimes()); c.vec(s.getTimeSegments()); c.mat(s.getSpacePoints());
  c.d(s.getStartTime()); c.d(s.getEndTime()); c.d(s.getDuration()); c.i(s.getNumSegments()); c.i(s.isInitialized());
  if (!refo) { c.d(s.getEnergy()); add_grads(c, s.getEnergyGrad()); c.mat(s.getEnergyPartialGradByCoeffs()); c.mat(s.getEnergyPartialGradByTimes());
    for (int kind = 0; kind < 2; ++kind) { Mat g; Eigen::VectorXd gt; upstream(N, kind, g, gt); add_grads(c, s.propagateGrad(g, gt)); } }
  else { c.d(s.getEnergy()); { Grads g = dirty_grads(N + 2); s.getEnergyGrad(g); add_grads(c, g); }
    { Mat pc = Mat::Constant(M * N, D, 7.5); s.getEnergyPartialGradByCoeffs(pc); c.mat(pc); Mat pc2 = Mat::Constant(M * (N + 2), D, 7.5); s.getEnergyPartialGradByCoeffs(pc2); if (!mat_bits_equal(pc, pc2)) c.tag("partial-coeffs: result depends on the size of the caller's buffer"); }
    { Eigen::VectorXd pt = Eigen::VectorXd::Constant(N, 7.5); s.getEnergyPartialGradByTimes(pt); c.mat(pt); }
    for (int kind = 0; kind < 2; ++kind) { Mat g; Eigen::VectorXd gt; upstream(N, kind, g, gt); Grads out = dirty_grads(kind == 0 ? N + 2 : N); s.propagateGrad(g, gt, out); add_grads(c, out); } }
  const auto &b = s.getTrajectory().getBreakpoints();
  for (int k = 0; k <= M; ++k) for (size_t i = 0; i < b.size(); ++i) { double t = i + 1 < b.size() ? b[i] + 0.3 * (b[i + 1] - b[i]) : b[i]; auto v = s.getTrajectory().evaluate(t, k); c.raw(v.data(), sizeof(double) * D); }
  // values at every knot itself and just inside both neighbours (right-continuity), order 0 and 1
  for (int k = 0; k <= 1; ++k) for (size_t i = 0; i < b.size(); ++i) for (int w = -1; w <= 1; ++w) { double t = w == 0 ? b[i] : w < 0 ? (i ? b[i] - 0.125 * (b[i] - b[i - 1]) : b[i]) : (i + 1 < b.size() ? b[i] + 0.125 * (b[i + 1] - b[i]) : b[i]);
    if (hint >= -1) { int h = hint; auto v = s.getTrajectory().evaluate(t, &h, k); c.raw(v.data(), sizeof(double) * D); } else { auto v = s.getTrajectory().evaluate(t, k); c.raw(v.data(), sizeof(double) * D); } }
  c.d(s.getEnergy());  // again, after the other queries
  return c.s;
}

struct World {
  std::unique_ptr<Sp> X; int m = -1; int hint = 0;   // hint: the caller-held segment hint of the hinted evaluate overloads, kept across updates
  World() : X(new Sp()) {}
  int nops() const { return 21; }
  bool enabled(int op) const { return op < 10 || op >= 19 || m >= 0; }
  std::string opname(int op) const {
    static const char *n[] = {"update(dur,N=1)", "update(dur,N=2)", "update(dur,N=3)", "update(dur,N=5)", "update(dur,N=3')", "update(tp,N=1)", "update(tp,N=2)", "update(tp,N=3)", "update(tp,N=5)", "update(tp,N=3')",
                              "getEnergy", "getEnergyGrad", "partial grads", "propagateGrad(unit)", "propagateGrad(dense)", "evaluate grid",
                              "hinted evaluate (kept hint) inside the first segment", "hinted evaluate (kept hint) at every knot, ascending", "hinted evaluate (kept hint) at the end time", "update(dur,N=3 same end knots, other inner knots)", "update(tp,N=3 same end knots, other inner knots)"};
    return n[op];
  }
  void apply(int op) {
    const auto &ps = problems();
    if (op == 19) { const auto &p = ps[5]; X->update(p.T, p.P, p.t0, p.bc); m = 5; }
    else if (op == 20) { const auto &p = ps[5]; X->update(p.timepoints(), p.P, p.bc); m = 5; }
    else if (op < 5) { const auto &p = ps[op]; X->update(p.T, p.P, p.t0, p.bc); m = op; }
    else if (op < 10) { const auto &p = ps[op - 5]; X->update(p.timepoints(), p.P, p.bc); m = op - 5; }
    else if (op == 10) (void)X->getEnergy();
    else if (op == 11) (void)X->getEnergyGrad();
    else if (op == 12) { (void)X->getEnergyPartialGradByCoeffs(); (void)X->getEnergyPartialGradByTimes(); }
    else if (op == 13 || op == 14) { Mat g; Eigen::VectorXd gt; upstream(ps[m].N, op - 13, g, gt); (void)X->propagateGrad(g, gt); }
    else if (op == 15) { const auto &b = X->getTrajectory().getBreakpoints(); for (int k = 0; k < 3; ++k) for (double t : b) (void)X->getTrajectory().evaluate(t, k); }
    else if (op == 16) { const auto &b = X->getTrajectory().getBreakpoints(); (void)X->getTrajectory().evaluate(b[0] + 0.25 * (b[1] - b[0]), &hint, 0); }
    else if (op == 17) { const auto &b = X->getTrajectory().getBreakpoints(); for (double t : b) (void)X->getTrajectory().evaluate(t, &hint, 1); }
    else if (op == 18) { (void)X->getTrajectory().evaluate(X->getEndTime(), &hint, 0); }
  }
  std::string canon() const { Canon c; canon_add(c, *X); c.i(m); c.i(hint); return c.s; }
  std::string check(std::string &digest) {
    if (m < 0) { digest = "none"; return X->isInitialized() ? "default-constructed spline claims to be initialised" : ""; }
    const auto &p = problems()[m];
    digest = observe(*X, p.N, hint, true);   // the long-lived object, queried through the hinted overloads with the caller's current hint ...
    Sp fresh(p.T, p.P, p.t0, p.bc);
    std::string want = observe(fresh, p.N);   // ... must agree with un-hinted queries of a fresh object
    if (digest != want) {
      // find which observable differs, for the message
      Canon a, b; a.mat(X->getTrajectory().getCoefficients()); b.mat(fresh.getTrajectory().getCoefficients());
      if (a.s != b.s) return "coefficients differ from a freshly constructed spline with the same latest inputs";
      if (!bits_equal(X->getEnergy(), fresh.getEnergy())) return "getEnergy differs from a freshly constructed spline";
      if (observe(*X, p.N, hint, false) == want) return "a reference-output overload (getEnergyGrad / getEnergyPartialGradBy* / propagateGrad) handed a used caller object differs from the by-value result of a fresh spline";
      if (observe(*X, p.N) == want) return fmt("a hinted evaluation starting from the caller-held hint %d (left by earlier queries) differs from the un-hinted evaluation", hint);
      return "an observable (energy gradient / partials / propagateGrad / evaluate) differs bitwise from a freshly constructed spline with the same latest inputs";
    }
    return "";
  }
};

int main(int argc, char **argv) {
  Args a = parse_args(argc, argv);
  return supervise(a, [&](Ctx &c) {
    const int depth = c.args.thorough() ? 10 : 6;
    std::string tag = fmt("%sSplineND<%d>", S == 2 ? "Cubic" : S == 3 ? "Quintic" : "Septic", D);
    BfsResult r = bfs(c, tag, [] { return std::unique_ptr<World>(new World()); }, depth, c.args.thorough() ? 4 : 3);
    note_bfs(c, tag, r, depth);
  });
}
