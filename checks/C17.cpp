// C17 -- time maps: positive, increasing, C^1 across the branch, inverse, backward rule (E1 over a floating-point lattice).
#include "optkit.hpp"
using namespace vf;
using namespace SplineTrajectory;

static double step_ulps(double x, long n) {  // move n ulps (n may be negative), crossing zero through the denormals
  int64_t b; memcpy(&b, &x, 8); if (b < 0) b = (int64_t)0x8000000000000000LL - b;  // to a monotone integer line
  b += n; if (b < 0) b = (int64_t)0x8000000000000000LL - b; double r; memcpy(&r, &b, 8); return r;
}
static std::string fmt_vec(const std::vector<double> &v) { std::string r = "["; for (size_t i = 0; i < v.size(); ++i) r += fmt("%s%.17g", i ? "," : "", v[i]); return r + "]"; }
static double ulp(double x) { x = std::fabs(x); return std::nextafter(x, INFINITY) - x; }
static LD Tprime(LD tau) { if (tau > 0) return tau + 1; LD den = (0.5L * tau - 1) * tau + 1; return (1 - tau) / (den * den); }
static LD Texact(LD tau) { return tau > 0 ? (0.5L * tau + 1) * tau + 1 : 1 / ((0.5L * tau - 1) * tau + 1); }

struct Chk {
  Ctx &c; const std::string &unit; QuadInvTimeMap m;
  Chk(Ctx &c_, const std::string &u) : c(c_), unit(u) {}
  void fail(const char *what, double x, const std::string &d) { c.st.violate(unit, fmt("QuadInvTimeMap %s at %.17g: %s", what, x, d.c_str()), {{"what", what}}); }
  void tau_point(double tau) {
    ++c.st.comparisons; { uint64_t b; memcpy(&b, &tau, 8); if (c.st.distinct.insert(b * 0x9E3779B97F4A7C15ULL + 1).second) ++c.st.nontrivial; }
    const double T = m.toTime(tau);
    if (!(T > 0) || !std::isfinite(T)) { fail("positivity", tau, fmt("toTime = %.17g", T)); return; }
    { double e = (double)(fabsl((LD)T - Texact(tau)) / Texact(tau)); c.st.obs("toTime_rel_err", e); if (e > 1e-14) { fail("value", tau, fmt("toTime = %.17g, closed form %.17Lg", T, Texact(tau))); return; } }
    const double tn = std::nextafter(tau, INFINITY), Tn = m.toTime(tn);
    if (Tn < T) { fail("monotone(adjacent)", tau, fmt("toTime(next double) = %.17g < toTime = %.17g", Tn, T)); return; }
    const double t16 = tau + 16 * ulp(std::max(std::fabs(tau), 1.0)), T16 = m.toTime(t16);
    if (!(T16 > T)) { fail("strictly-increasing", tau, fmt("toTime(tau + 16 ulp) = %.17g is not > %.17g", T16, T)); return; }
    // backward = g * T'(tau)
    const double b1 = m.backward(tau, T, 1.0); const LD tp = Tprime(tau);
    { double e = (double)(fabsl((LD)b1 - tp) / tp); c.st.obs("backward_rel_err", e); if (e > 1e-14) { fail("backward", tau, fmt("backward(.,.,1) = %.17g, T'(tau) = %.17Lg", b1, tp)); return; } }
    if (!(b1 > 0)) { fail("backward-sign", tau, "derivative not positive"); return; }
    if (m.backward(tau, T, 0.0) != 0.0 || !bits_equal(m.backward(tau, T, -1.0), -b1) || !bits_equal(m.backward(tau, T, 0.0009765625), b1 * 0.0009765625)) { fail("backward-linearity", tau, "not linear in the incoming gradient (0, -1, 2^-10)"); return; }
    // exactly homogeneous in the incoming gradient over its whole dynamic range (a tolerance "nothing to propagate" would break this: C17-m5)
    for (int k : {-900, -300, -100, -60, -45, -41, -40, -39, -30, -20, 20, 40, 100, 300, 900}) { const double gk = std::ldexp(1.0, k); if (!bits_equal(m.backward(tau, T, gk), b1 * gk) || !bits_equal(m.backward(tau, T, -gk), -(b1 * gk))) { fail("backward-linearity", tau, fmt("backward(., ., +-2^%d) is not 2^%d * backward(., ., 1) = %.17g", k, k, b1 * gk)); return; } }
    { double b3 = m.backward(tau, T, 3.0); if (std::fabs(b3 - 3.0 * b1) > 4 * ulp(3.0 * b1)) { fail("backward-linearity", tau, fmt("backward(3) = %.17g vs 3*backward(1) = %.17g", b3, 3.0 * b1)); return; } }
    // inverse
    const double back = m.toTau(T); double e = std::fabs(back - tau) / std::max(1.0, std::fabs(tau)); c.st.obs("toTau(toTime)_err", e);
    if (!(e <= 1e-12)) { fail("inverse(tau)", tau, fmt("toTau(toTime(tau)) = %.17g", back)); return; }
  }
  void T_point(double T) {
    ++c.st.comparisons; { uint64_t b; memcpy(&b, &T, 8); if (c.st.distinct.insert(b * 0x9E3779B97F4A7C15ULL + 2).second) ++c.st.nontrivial; }
    const double tau = m.toTau(T);
    if (!std::isfinite(tau)) { fail("toTau-finite", T, "not finite"); return; }
    const double T2 = m.toTime(tau); double e = std::fabs(T2 - T) / T; c.st.obs("toTime(toTau)_rel_err", e);
    if (!(e <= 1e-12)) { fail("inverse(T)", T, fmt("toTime(toTau(T)) = %.17g", T2)); return; }
    const double Tn = std::nextafter(T, INFINITY); if (m.toTau(Tn) < tau) { fail("toTau-monotone", T, "toTau decreases between adjacent doubles"); return; }
    if ((T > 1.0) != (tau > 0.0) && T != 1.0 && tau != 0.0) { fail("toTau-branch", T, fmt("toTau = %.17g has the wrong sign", tau)); return; }
  }
};

int main(int argc, char **argv) {
  Args a = parse_args(argc, argv);
  return supervise(a, [&](Ctx &c) {
    const bool th = c.args.thorough();
    const long NEI = th ? (1L << 20) : (1L << 16), CH = 8192;
    long id = 0;
    auto unit_begin = [&](const std::string &key, std::string &unit) { long my = id++; if (!c.mine(my)) return false; unit = str(my); if (!c.begin(unit)) return false; ++c.st.evaluations; c.st.seen(key); return true; };
    // (1) mantissa/exponent lattice of tau and T
    for (int e = -60; e <= 19; ++e) {
      std::string unit; if (!unit_begin(fmt("lat/%d", e), unit)) continue; Chk k(c, unit);
      const int MB = th ? 256 : 16;   // 4-bit (quick) / 8-bit (thorough) mantissas
      for (int mi = 0; mi < MB; ++mi) { double v = std::ldexp(1.0 + (double)mi / MB, e); if (v <= 1e6) { k.tau_point(v); k.tau_point(-v); } if (v >= 1e-6 && v <= 1e6) k.T_point(v); }
      if (e == 0) { k.tau_point(0.0); k.tau_point(-0.0); k.T_point(1.0); k.tau_point(1e6); k.tau_point(-1e6); k.T_point(1e-6); k.T_point(1e6); }
      c.st.cls("mantissa/exponent lattice");
      if (e % 16 == 0) c.st.sample(fmt("unit %s: tau = +-m*2^%d and T = m*2^%d for the 16 four-bit mantissas m: positivity, adjacent-double monotonicity, strictness at 16 ulp, backward = g*T'(tau), inverse round trips", unit.c_str(), e, e));
    }
    // (1b) approach lattices: c +- m*2^e towards each critical point c (covers windows such as |T-1| < 1e-3 that the consecutive-double
    //      neighbourhoods (width ~1e-11) and the coarse lattice both miss)
    { const double tcs[5] = {0.0, 1.0, -1.0, 1e6, -1e6}, Tcs[3] = {1.0, 1e-6, 1e6};
      for (int e = -52; e <= -1; ++e) { std::string unit; if (!unit_begin(fmt("approach/%d", e), unit)) continue; Chk k(c, unit);
        for (int mi = 0; mi < 16; ++mi) for (double sgn : {1.0, -1.0}) { const double d = sgn * std::ldexp(1.0 + mi / 16.0, e);
          for (double cc : tcs) { double v = cc + d * std::max(1.0, std::fabs(cc)); if (std::fabs(v) <= 1e6) k.tau_point(v); }
          for (double cc : Tcs) { double v = cc + d * cc; if (v >= 1e-6 && v <= 1e6) k.T_point(v); } }
        c.st.cls("approach lattices c +- m*2^e"); } }
    // (2) every double within NEI ulps of the critical points
    struct Nb { double centre; bool is_tau; const char *name; };
    const Nb nbs[] = {{0.0, true, "tau around 0 (branch switch, denormals, both signs)"}, {1.0, true, "tau around 1"}, {-1.0, true, "tau around -1"}, {1e6, true, "tau around 1e6"}, {-1e6, true, "tau around -1e6"}, {1.0, false, "T around 1 (toTau branch switch)"}, {1e-6, false, "T around 1e-6"}, {1e6, false, "T around 1e6"}};
    for (const Nb &nb : nbs) for (long lo = -NEI; lo < NEI; lo += CH) {
      std::string unit; if (!unit_begin(fmt("nb/%s/%ld", nb.name, lo), unit)) continue; Chk k(c, unit);
      for (long o = lo; o < lo + CH; ++o) {
        double v = step_ulps(nb.centre, o);
        if (nb.is_tau) { if (std::fabs(v) <= 1e6) k.tau_point(v); }
        else if (v >= 1e-6 && v <= 1e6) k.T_point(v);
      }
      c.st.cls(nb.name);
      if (lo == 0) c.st.sample(fmt("unit %s: every double from %.17g to %.17g (%ld consecutive doubles, %s)", unit.c_str(), step_ulps(nb.centre, lo), step_ulps(nb.centre, lo + CH - 1), CH, nb.name));
    }
    // (3) smoothness across the switch: both one-sided derivatives at 0 equal 1; difference quotients agree
    { std::string unit; if (unit_begin("switch", unit)) { QuadInvTimeMap m; ++c.st.comparisons;
        for (double h : {4.9406564584124654e-324, 1e-300, 1e-200, 1e-100, 1e-30, 1e-20, 1e-16}) for (double s : {1.0, -1.0}) { double b = m.backward(s * h, m.toTime(s * h), 1.0); if (std::fabs(b - 1.0) > 1e-15) c.st.violate(unit, fmt("backward(%.3g) = %.17g: one-sided derivative at the switch is not 1", s * h, b)); }
        for (int e = -26; e <= -8; ++e) for (double s : {1.0, -1.0}) { double h = s * std::ldexp(1.0, e); double q = (m.toTime(h) - m.toTime(0.0)) / h; if (std::fabs(q - 1.0) > 2 * std::fabs(h) + 1e-8) c.st.violate(unit, fmt("difference quotient at 0 with h=%.3g is %.17g", h, q)); }
        c.st.cls("branch switch smoothness"); } }
    // (5) the maps as the optimizer uses them: for ALL words of length <= 3 over a duration alphabet with nearly equal neighbours around 1 ms
    //     and around the branch point T = 1, the time block of generateInitialGuess() is toTau(T_i) entry by entry (bitwise) and an evaluation
    //     decodes x_i to toTime(x_i) (bitwise) -- per segment, whatever the neighbouring durations are (seeded change C17-m6)
    { const double A[6] = {0.001, 0.001 * (1.0 + 4.656612873077393e-10), 1.0 - 2.3283064365386963e-10, 1.0, 1.0 + 4.656612873077393e-10, 3600.0};
      for (int N = 1; N <= 3; ++N) { std::string unit; if (!unit_begin(fmt("optimizer/%d", N), unit)) continue; long nw = 1; for (int i = 0; i < N; ++i) nw *= 6;
        for (long w = 0; w < nw; ++w) for (int which = 0; which < 2; ++which) { std::vector<double> T(N); long ww = w; for (int i = 0; i < N; ++i) { T[i] = A[ww % 6]; ww /= 6; }
          Eigen::Matrix<double, Eigen::Dynamic, 1> P(N + 1); for (int i = 0; i <= N; ++i) P(i) = 0.5 * i - 0.25 * (i & 1); BoundaryConditions<1> bc; ++c.st.comparisons;
          auto run = [&](auto &opt, auto map) { if (!opt.setInitState(T, P, -2.5, bc)) { c.st.violate(unit, "valid problem rejected: " + opt.getLastError()); return; }
            Eigen::VectorXd x = opt.generateInitialGuess(), g; for (int i = 0; i < N; ++i) if (!bits_equal(x(i), map.toTau(T[i]))) { c.st.violate(unit, fmt("generateInitialGuess(): time variable %d is %.17g, toTau(%.17g) = %.17g (durations %s)", i, x(i), T[i], map.toTau(T[i]), fmt_vec(T).c_str()), {{"what", "optimizer-initial-guess"}}); return; }
            // decoding is the map and nothing else: at the initial guess itself, and for the SAME vector after the optimizer was re-initialised with
            // other durations (warm start), every duration is toTime(x_i) bit for bit (seeded change C17-m8: reference durations substituted
            // for variables that equal a remembered guess)
            { TimeCost tc0; RunCost<1> rc0 = RunCost<1>::mode(0); Eigen::VectorXd g0; (void)opt.evaluate(x, g0, tc0, rc0); const auto *o0 = opt.getOptimalSpline();
              for (int i = 0; i < N; ++i) if (!o0 || !bits_equal(o0->getTimeSegments()[i], map.toTime(x(i)))) { c.st.violate(unit, fmt("evaluate(initial guess): duration %d is not toTime(x_%d) (durations %s)", i, i, fmt_vec(T).c_str()), {{"what", "optimizer-decode"}}); return; }
              std::vector<double> T2 = T; for (double &t : T2) t *= 1.5; if (!opt.setInitState(T2, P, -2.5, bc)) { c.st.violate(unit, "valid problem rejected: " + opt.getLastError()); return; }
              (void)opt.evaluate(x, g0, tc0, rc0); o0 = opt.getOptimalSpline();
              for (int i = 0; i < N; ++i) if (!o0 || !bits_equal(o0->getTimeSegments()[i], map.toTime(x(i)))) { c.st.violate(unit, fmt("after re-initialisation with other durations, evaluate(previous initial guess): duration %d is %.17g, toTime(x_%d) = %.17g (durations %s)", i, o0 ? o0->getTimeSegments()[i] : 0.0, i, map.toTime(x(i)), fmt_vec(T).c_str()), {{"what", "optimizer-decode"}}); return; }
              if (!opt.setInitState(T, P, -2.5, bc)) return; }
            // ... and for variables BELOW the initial guess: the 1 ms letters then decode to durations under the acceptance limit of
            // setInitState, which evaluate() must not clamp -- the map alone defines the duration of a decision variable (seeded change C19-m10)
            { Eigen::VectorXd xl = x, gl; for (int i = 0; i < N; ++i) xl(i) -= 0.0625 * (i + 1); TimeCost tcl; RunCost<1> rcl = RunCost<1>::mode(0); (void)opt.evaluate(xl, gl, tcl, rcl); const auto *ol = opt.getOptimalSpline();
              for (int i = 0; i < N; ++i) if (!ol || !bits_equal(ol->getTimeSegments()[i], map.toTime(xl(i)))) { c.st.violate(unit, fmt("evaluate(): duration %d is %.17g, toTime(x_%d) = %.17g (variables below the initial guess of durations %s)", i, ol ? ol->getTimeSegments()[i] : 0.0, i, map.toTime(xl(i)), fmt_vec(T).c_str()), {{"what", "optimizer-decode"}}); return; } }
            // the backward rule at its use site, with an energy term in the cost: the time block of the returned gradient is
            // backward(x_i, T_i, dCost/dT_i) for the COMPLETE duration gradient the workspace reports (seeded change C17-m10: backward applied
            // before the energy term is added); and an optimizer that received this problem by assignment, after serving other durations,
            // hands out toTau of THESE durations (seeded change C17-m9)
            // (compared within 8 ulp, not bitwise: `backward(x, T, 1) * g` is as correct a use of the backward rule as `backward(x, T, g)`)
            { typename std::decay<decltype(opt)>::type::Workspace wsb; Eigen::VectorXd xb = x, gb; for (int i = 0; i < N; ++i) xb(i) += 0.015625 * (i + 1); opt.setEnergyWeights(0.25); TimeCost tcb; RunCost<1> rcb = RunCost<1>::mode(1); (void)opt.evaluate(xb, gb, tcb, rcb, &wsb);
              for (int i = 0; i < N; ++i) { const double want = map.backward(xb(i), map.toTime(xb(i)), wsb.grads.times(i)); if (!(std::fabs(gb(i) - want) <= 1.8e-15 * std::fabs(want))) { c.st.violate(unit, fmt("evaluate() with an energy weight: time entry %d of the gradient is %.17g, backward(x_%d, T_%d, dCost/dT_%d = %.17g) = %.17g (durations %s)", i, gb(i), i, i, i, wsb.grads.times(i), want, fmt_vec(T).c_str()), {{"what", "optimizer-backward"}}); return; } }
              opt.setEnergyWeights(0.0);
              typename std::decay<decltype(opt)>::type other; std::vector<double> To = T; for (double &t : To) t = t * 0.5 + 0.25; if (other.setInitState(To, P, 1.0, bc)) (void)other.generateInitialGuess();
              other = opt; Eigen::VectorXd xo = other.generateInitialGuess(); for (int i = 0; i < N; ++i) if (xo.size() != x.size() || !bits_equal(xo(i), map.toTau(T[i]))) { c.st.violate(unit, fmt("an optimizer assigned from this one (after serving other durations): generateInitialGuess() time variable %d is not toTau(%.17g) (durations %s)", i, T[i], fmt_vec(T).c_str()), {{"what", "optimizer-initial-guess"}}); return; } }
            for (int i = 0; i < N; ++i) x(i) += 0.03125 * (i + 1); TimeCost tc; RunCost<1> rc = RunCost<1>::mode(0); (void)opt.evaluate(x, g, tc, rc); const auto *os = opt.getOptimalSpline();
            for (int i = 0; i < N; ++i) if (!os || !bits_equal(os->getTimeSegments()[i], map.toTime(x(i)))) { c.st.violate(unit, fmt("evaluate(): duration %d is not toTime(x_%d) (durations %s)", i, i, fmt_vec(T).c_str()), {{"what", "optimizer-decode"}}); return; } };
          if (which == 0) { SplineOptimizer<1, CubicSplineND<1>, QuadInvTimeMap> o; run(o, QuadInvTimeMap()); } else { SplineOptimizer<1, CubicSplineND<1>, IdentityTimeMap> o; run(o, IdentityTimeMap()); } }
        c.st.cls("maps as used by the optimizer"); c.st.sample(fmt("unit %s: all %ld words of length %d over durations {1 ms, 1 ms(1+2^-31), 1-2^-32, 1, 1+2^-31, 3600 s}, QuadInv and Identity: initial guess = toTau per entry, decode = toTime per entry (bitwise)", unit.c_str(), nw, N), 7); } }
    // (4) identity map passes values and gradients through unchanged (bitwise)
    { std::string unit; if (unit_begin("identity", unit)) { IdentityTimeMap im; Lcg g(c.args.seed); for (int i = 0; i < 4096; ++i) { double v = std::ldexp(g.dyadic_nz(), (int)(g.next() % 80) - 40), gr = g.dyadic(); ++c.st.comparisons;
        if (!bits_equal(im.toTime(v), v) || !bits_equal(im.toTau(v), v) || !bits_equal(im.backward(v, v, gr), gr) || !bits_equal(im.backward(v, 2 * v, gr), gr)) c.st.violate(unit, fmt("IdentityTimeMap alters %.17g / %.17g", v, gr)); }
        c.st.cls("identity map"); } }
  });
}
