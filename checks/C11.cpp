// C11 -- lazy derivative caches and copies never serve stale data (E2 history explorer; R5 fresh-object oracle).
// -DVWORLD=0..5 selects the world: 0..2 PPolyND<2,Dynamic> / <2,8> / <1,12>; 3..5 cubic / quintic / septic spline worlds (DIM 2).
#include "splinekit.hpp"
#include "canon.hpp"
#include "explore.hpp"
#include <memory>
#ifndef VWORLD
#define VWORLD 0
#endif
using namespace vf;

template <int DIM, int ORDER> struct PPWorld {
  typedef PPolyND<DIM, ORDER> PP;
  typedef typename PP::MatrixType Mat;
  typedef typename PP::VectorType Vec;
  struct DS { std::vector<double> b; Mat C; int nc; bool valid; };
  static const std::vector<DS> &datasets() {
    static std::vector<DS> ds;
    if (ds.empty()) {
      // two larger coefficient counts: for Dynamic / ORDER 12 both lie beyond the static factor table (8), so a table built for one
      // is met by an update to a LARGER count (seeded change C11-m1 needs exactly that)
      const int ncbig = (ORDER == Eigen::Dynamic || ORDER >= 12) ? 10 : 6, ncbig2 = (ORDER == Eigen::Dynamic || ORDER >= 12) ? 12 : 8;
      auto mk = [&](int n, int nc, double b0, double step, int salt, bool valid, int extra_rows) {
        DS d; d.nc = nc; d.valid = valid;
        for (int i = 0; i <= n; ++i) d.b.push_back(b0 + step * i + 0.125 * (i % 2));
        d.C.resize(n * nc + extra_rows, DIM);
        for (int r = 0; r < d.C.rows(); ++r) for (int k = 0; k < DIM; ++k) d.C(r, k) = (double)(((r * 5 + k * 3 + salt * 7) % 13) - 6) / 4.0;
        return d;
      };
      ds.push_back(mk(3, 4, -1.0, 1.0, 0, true, 0));      // a
      ds.push_back(mk(3, 4, 2.0, 0.5, 1, true, 0));       // a2: same shape as a, other values and breakpoints
      ds.push_back(mk(5, 4, 0.0, 0.75, 2, true, 0));      // b: other segment count
      ds.push_back(mk(3, ncbig, -1.0, 1.0, 3, true, 0));  // c: other coefficient count
      { DS d; d.nc = 4; d.valid = false; d.b = {0.5}; d.C.resize(0, DIM); ds.push_back(d); }  // bad: one breakpoint
      ds.push_back(mk(3, 4, -1.0, 1.0, 4, false, 1));     // bad2: coefficient rows off by one
      ds.push_back(mk(3, ncbig2, -1.0, 1.0, 5, true, 0)); // d: even more coefficients
      // e / e2: the data of `a` in a frame 1e9 away, differing from each other only by 2^-10 in the velocity coefficients: their relative
      // Frobenius distance is ~1e-12, so an 'approximately equal' test would treat the update as a no-op (seeded change C11-m5)
      // mixed data sets reached by SELF-ALIASED updates (index 9: a's grid with a2's pieces, index 10: a2's grid with a's pieces): the object's own
      // getBreakpoints() / getCoefficients() handed back to its update() together with new values for the other argument (seeded change C11-m9)
      { DS e = ds[0]; for (int sg = 0; sg < 3; ++sg) for (int k = 0; k < DIM; ++k) e.C(sg * e.nc, k) += 1073741824.0; ds.push_back(e); DS e2 = e; for (int sg = 0; sg < 3; ++sg) for (int k = 0; k < DIM; ++k) e2.C(sg * e2.nc + 1, k) += 0.0009765625; ds.push_back(e2); }
      { DS m1 = ds[0]; m1.C = ds[1].C; ds.push_back(m1); DS m2 = ds[1]; m2.C = ds[0].C; ds.push_back(m2); }
    }
    return ds;
  }
  std::unique_ptr<PP> X, Y; int mx = -1, my = -1;
  PPWorld() : X(new PP()), Y(new PP()) {}
  int nops() const { return 24; }
  bool enabled(int op) const { return op < 22 || mx == 0 || mx == 1; }
  static constexpr double TPROBE = 0.3125;   // a fixed ABSOLUTE probe time: it lies in another segment of every data set's grid
  std::string opname(int op) const {
    static const char *n[] = {"X.update(a)", "X.update(a2 same shape)", "X.update(b more segments)", "X.update(c more coeffs)", "X.update(bad: 1 breakpoint)", "X.update(bad: row count)",
                              "X.evaluate(k=0)", "X.evaluate(k=1)", "X.evaluate(k=top)", "X.evaluate(k=beyond)", "X.evaluate(hinted,k=1)", "X.derivative(1).evaluate", "Y = X", "Y = PP(X) copy-ctor", "X = X",
                              "swap roles X<->Y", "Y.evaluate(k=1)", "Y.update(b)", "X.derivative(2) kept as Y", "X.update(d even more coeffs)", "X.update(e = a in a frame 1e9 away)", "X.update(e2 = e with velocities + 2^-10)", "X.update(X.getBreakpoints(), pieces of the other same-shape data set)", "X.update(grid of the other same-shape data set, X.getCoefficients())"};
    return n[op];
  }
  void apply(int op) {
    const auto &ds = datasets();
    double tp = X->getStartTime() + 0.3 * X->getDuration();
    if (op <= 5) { X->update(ds[op].b, ds[op].C, ds[op].nc); mx = ds[op].valid ? op : -1; }
    else if (op == 22) { const int o = 1 - mx; X->update(X->getBreakpoints(), ds[o].C, ds[o].nc); mx = mx == 0 ? 9 : 10; }
    else if (op == 23) { const int o = 1 - mx; X->update(ds[o].b, X->getCoefficients(), ds[mx].nc); mx = mx == 0 ? 10 : 9; }
    else if (op == 6) (void)X->evaluate(TPROBE, 0);   // fixed absolute time (a lookup remembered per time must not survive a re-gridding: C11-m10)
    else if (op == 7) (void)X->evaluate(TPROBE, 1);
    else if (op == 8) (void)X->evaluate(tp, std::max(0, X->getNumCoeffs() - 1));
    else if (op == 9) (void)X->evaluate(tp, X->getNumCoeffs());
    else if (op == 10) { int h = 1; (void)X->evaluate(tp, &h, 1); }
    else if (op == 11) { PP d = X->derivative(1); (void)d.evaluate(tp, 0); }
    else if (op == 12) { *Y = *X; my = mx; }
    else if (op == 13) { Y.reset(new PP(*X)); my = mx; }
    else if (op == 14) { PP &r = *X; *X = r; }
    else if (op == 15) { std::swap(X, Y); std::swap(mx, my); }
    else if (op == 16) (void)Y->evaluate(Y->getStartTime() + 0.3 * Y->getDuration(), 1);
    else if (op == 17) { Y->update(ds[2].b, ds[2].C, ds[2].nc); my = 2; }
    else if (op == 18) { if (mx >= 0 && mx < 100) { PP d = X->derivative(2); *Y = d; my = 100 + mx; } }
    else if (op == 19) { X->update(ds[6].b, ds[6].C, ds[6].nc); mx = 6; }
    else if (op == 20 || op == 21) { int k = op - 13; X->update(ds[k].b, ds[k].C, ds[k].nc); mx = k; }
  }
  std::string canon() const { Canon c; canon_add(c, *X); canon_add(c, *Y); c.i(mx); c.i(my); return c.s; }
  static std::string check_obj(const PP &o, int m, const char *name, Canon &dg) {
    const auto &ds = datasets();
    if (m < 0) { if (o.isInitialized() || o.getNumSegments() != 0) return std::string(name) + " should be uninitialised with no segments"; return ""; }
    PP fresh = m >= 100 ? PP(ds[m - 100].b, ds[m - 100].C, ds[m - 100].nc).derivative(2) : PP(ds[m].b, ds[m].C, ds[m].nc);
    if (!o.isInitialized() || o.getNumSegments() != fresh.getNumSegments() || o.getNumCoeffs() != fresh.getNumCoeffs() || o.getBreakpoints() != fresh.getBreakpoints() || !mat_bits_equal(o.getCoefficients(), fresh.getCoefficients()))
      return std::string(name) + " does not hold its latest data (shape/breakpoints/coefficients)";
    // first, at the fixed absolute probe time the history's own evaluate operations use
    for (int k = 0; k <= 1; ++k) { Vec a = o.evaluate(TPROBE, k), w = fresh.evaluate(TPROBE, k); dg.raw(a.data(), sizeof(double) * DIM); if (!bits_equal(a.data(), w.data(), DIM)) return fmt("%s.evaluate(t=%.6g,k=%d) = %.17g right after the history, a fresh object with the same data gives %.17g (stale lookup / cache)", name, TPROBE, k, a(0), w(0)); }
    const std::vector<double> &b = fresh.getBreakpoints();
    for (int k = 0; k <= fresh.getNumCoeffs() + 1; ++k) for (size_t i = 0; i < b.size(); ++i) for (double f : {0.0, 0.4}) {
      double t = i + 1 < b.size() ? b[i] + f * (b[i + 1] - b[i]) : b[i] + f;
      Vec a = o.evaluate(t, k), w = fresh.evaluate(t, k); int h = (int)i; Vec a2 = o.evaluate(t, &h, k);
      dg.raw(a.data(), sizeof(double) * DIM);
      if (!bits_equal(a.data(), w.data(), DIM) || !bits_equal(a2.data(), w.data(), DIM)) return fmt("%s.evaluate(t=%.6g,k=%d) = %.17g, a fresh object with the same data gives %.17g (stale cache)", name, t, k, a(0), w(0));
    }
    PP d1 = o.derivative(1), f1 = fresh.derivative(1);
    if (!mat_bits_equal(d1.getCoefficients(), f1.getCoefficients())) return std::string(name) + ".derivative(1) differs from a fresh object's";
    return "";
  }
  std::string check(std::string &digest) { Canon dg; std::string m = check_obj(*X, mx, "X", dg); if (m.empty()) m = check_obj(*Y, my, "Y", dg); digest = dg.s; return m; }
};

template <int S, int D> struct SplineWorld {
  typedef Spl<S, D> Sp;
  typedef typename Sp::TrajectoryType PP;
  typedef typename Sp::MatrixType Mat;
  static const int M = 2 * S;
  static const std::vector<Problem<D>> &problems() {
    static std::vector<Problem<D>> ps;
    if (ps.empty()) {
      auto mk = [&](int N, double t0, uint64_t seed, double tscale) { Problem<D> p; p.N = N; p.t0 = t0; for (int i = 0; i < N; ++i) p.T.push_back(tscale * (1.0 + 0.5 * (i % 2))); set_generic_data(p, seed); return p; };
      ps.push_back(mk(2, 0.0, 11, 1.0)); ps.push_back(mk(2, 1.5, 12, 0.5)); ps.push_back(mk(4, -2.0, 13, 1.0)); ps.push_back(mk(1, 0.25, 14, 2.0));
      ps.push_back(mk(2, 125.5, 15, 1.0));   // p4: the SAME durations as p0, another start time and other data
      { Problem<D> q = ps[0]; for (int i = 0; i <= q.N; ++i) for (int d = 0; d < D; ++d) q.P(i, d) += 1073741824.0; ps.push_back(q); q.bc.start_velocity(0) += 0.0009765625; q.bc.end_velocity(D - 1) -= 0.0009765625; ps.push_back(q); }   // p5 / p6: p0 in a frame 1e9 away; p6 differs from p5 by 2^-10 in two boundary velocities only
    }
    return ps;
  }
  std::unique_ptr<Sp> S1, S2; PP T; int m1 = -1, m2 = -1, mt = -1;
  const PP *R = nullptr;   // a reference to S1's trajectory taken ONCE, before any update, and kept by the caller (S1 is never re-allocated)
  SplineWorld() : S1(new Sp()), S2(new Sp()) { R = &S1->getTrajectory(); }
  int nops() const { return 21; }
  bool enabled(int op) const { if (op == 16) return m1 >= 0; return true; }
  std::string opname(int op) const {
    static const char *n[] = {"S1.update(dur,p0)", "S1.update(dur,p1 same N)", "S1.update(dur,p2 N=4)", "S1.update(dur,p3 N=1)", "S1.update(tp,p0)", "S1.update(tp,p1)", "S1.update(tp,p2)", "S1.update(tp,p3)",
                              "evaluate S1.getTrajectory()", "T = S1.getTrajectoryCopy()", "S2 = S1", "S2 = Sp(S1) copy-ctor", "S2.update(dur,p1)", "evaluate T", "evaluate S2.getTrajectory()", "S1 = S1", "S1.propagateGrad(dense)", "S1.update(dur,p4 same durations as p0, other start)", "S1.update(tp,p4)", "S1.update(dur,p5 = p0 in a frame 1e9 away)", "S1.update(dur,p6 = p5 with two boundary velocities + 2^-10)"};
    return n[op];
  }
  static void touch(const PP &t) { for (int k = 0; k < 3; ++k) (void)t.evaluate(t.getStartTime() + 0.3 * t.getDuration(), k); }
  void apply(int op) {
    const auto &ps = problems();
    if (op < 4) { const auto &p = ps[op]; S1->update(p.T, p.P, p.t0, p.bc); m1 = op; }
    else if (op < 8) { const auto &p = ps[op - 4]; S1->update(p.timepoints(), p.P, p.bc); m1 = op - 4; }
    else if (op == 8) touch(S1->getTrajectory());
    else if (op == 9) { T = S1->getTrajectoryCopy(); mt = m1; }
    else if (op == 10) { *S2 = *S1; m2 = m1; }
    else if (op == 11) { S2.reset(new Sp(*S1)); m2 = m1; }
    else if (op == 12) { const auto &p = ps[1]; S2->update(p.T, p.P, p.t0, p.bc); m2 = 1; }
    else if (op == 13) touch(T);
    else if (op == 14) touch(S2->getTrajectory());
    else if (op == 15) { Sp &r = *S1; *S1 = r; }
    else if (op == 17) { const auto &p = ps[4]; S1->update(p.T, p.P, p.t0, p.bc); m1 = 4; }
    else if (op == 18) { const auto &p = ps[4]; S1->update(p.timepoints(), p.P, p.bc); m1 = 4; }
    else if (op == 19 || op == 20) { const auto &p = ps[op - 14]; S1->update(p.T, p.P, p.t0, p.bc); m1 = op - 14; }
    else if (op == 16) { int N = ps[m1].N; Mat g = Mat::Constant(M * N, D, 0.5); Eigen::VectorXd gt = Eigen::VectorXd::Constant(N, 0.25); (void)S1->propagateGrad(g, gt); }
  }
  std::string canon() const { Canon c; canon_add(c, *S1); canon_add(c, *S2); canon_add(c, T); c.i(m1); c.i(m2); c.i(mt); return c.s; }
  static std::string check_traj(const PP &t, int m, const char *name, Canon &dg) {
    const auto &ps = problems();
    if (m < 0) { if (t.isInitialized() || t.getNumSegments() != 0) return std::string(name) + " should be an uninitialised trajectory"; return ""; }
    const Problem<D> &p = ps[m]; Sp fresh(p.T, p.P, p.t0, p.bc); const PP &f = fresh.getTrajectory();
    if (!t.isInitialized() || t.getBreakpoints() != f.getBreakpoints() || !mat_bits_equal(t.getCoefficients(), f.getCoefficients())) return std::string(name) + " does not reflect the latest update (breakpoints/coefficients)";
    const std::vector<double> &b = f.getBreakpoints();
    for (int k = 0; k <= M; ++k) for (size_t i = 0; i < b.size(); ++i) for (double fr : {0.0, 0.6}) {
      double tt = i + 1 < b.size() ? b[i] + fr * (b[i + 1] - b[i]) : b[i];
      auto a = t.evaluate(tt, k), w = f.evaluate(tt, k); dg.raw(a.data(), sizeof(double) * D);
      if (!bits_equal(a.data(), w.data(), D)) return fmt("%s.evaluate(t=%.6g,k=%d) = %.17g but the spline's latest data gives %.17g (stale)", name, tt, k, a(0), w(0));
    }
    return "";
  }
  std::string check(std::string &digest) {
    // first, through the reference the caller has held since before the updates (no accessor is called in between): update() refreshes the
    // trajectory in place, it is not re-published lazily by the next getter call (seeded change C11-m8)
    Canon dg; std::string m = check_traj(*R, m1, "the trajectory reference obtained from S1.getTrajectory() before the updates", dg);
    if (m.empty() && R != &S1->getTrajectory()) m = "S1.getTrajectory() no longer refers to the same trajectory object";
    if (m.empty()) m = check_traj(S1->getTrajectory(), m1, "S1.getTrajectory()", dg);
    // the *Copy getters hand out independent objects even when the caller binds the result to a reference
    { const auto &r1 = S1->getTrajectoryCopy(); const auto &r2 = S1->getPPolyCopy(); if (m.empty() && ((const void *)&r1 == (const void *)&S1->getTrajectory() || (const void *)&r2 == (const void *)&S1->getPPoly())) m = "getTrajectoryCopy() / getPPolyCopy() returns a reference to the spline's own trajectory, not a copy";
      if (m.empty() && m1 >= 0) { PP keep = r2; const auto &ps = problems(); const auto &q = ps[(m1 + 1) % 4]; Sp tmp = *S1; const auto &r3 = tmp.getPPolyCopy(); tmp.update(q.T, q.P, q.t0, q.bc); if (r3.getBreakpoints() != keep.getBreakpoints() || !mat_bits_equal(r3.getCoefficients(), keep.getCoefficients())) m = "a trajectory obtained through getPPolyCopy() changed when its spline was updated"; } }
    if (m.empty()) m = check_traj(T, mt, "T (trajectory copy)", dg);
    if (m.empty()) m = check_traj(S2->getTrajectory(), m2, "S2.getTrajectory()", dg);
    if (m.empty() && m2 >= 0) { const auto &p = problems()[m2]; Sp fresh(p.T, p.P, p.t0, p.bc); double e = S2->getEnergy(), w = fresh.getEnergy(); dg.d(e); if (!bits_equal(e, w)) m = "S2.getEnergy() differs from a fresh spline of its latest inputs"; }
    digest = dg.s; return m;
  }
};

// ---- long silent runs (seeded change C11-m12: 8-bit revision stamps that wrap after 255 updates without an evaluation) ----
// The BFS above bounds the history length; a counter that wraps is out of its reach. Here ONE parameter is swept instead: the number n of
// consecutive updates that no evaluation separates, every n up to the bound, after the caches were filled once.
//  (copy)  one object, caches filled, then n = 1..nmax updates; after each a COPY is evaluated (the object itself stays un-evaluated)
//  (exact) for every n <= nexact separately: fresh object, caches filled, n updates, then the object itself is evaluated
template <class PPW> void silent_pp(Ctx &c, const char *tag, long nmax, int nexact) {
  typedef typename PPW::PP PP; typedef typename PPW::Vec Vec;
  const auto &ds = PPW::datasets();
  for (int variant = 0; variant < 2; ++variant) {
    const std::vector<int> seq = variant == 0 ? std::vector<int>{0, 1} : std::vector<int>{0, 2, 3, 1};   // same shape only / shapes change as well
    std::vector<std::vector<Vec>> want(ds.size());
    auto probe = [&](const PP &o) { std::vector<Vec> v; for (int k = 0; k <= 2; ++k) { v.push_back(o.evaluate(PPW::TPROBE, k)); v.push_back(o.evaluate(o.getStartTime() + 0.3 * o.getDuration(), k)); } return v; };
    for (int d : seq) { PP f(ds[d].b, ds[d].C, ds[d].nc); want[d] = probe(f); }
    auto same = [&](const std::vector<Vec> &a, const std::vector<Vec> &b) { for (size_t i = 0; i < a.size(); ++i) if (!bits_equal(a[i].data(), b[i].data(), (size_t)a[i].size())) return false; return true; };
    std::string unit = fmt("%s: silent updates variant %d (copy observed) n=1..%ld", tag, variant, nmax);
    if (c.begin(unit)) { ++c.st.evaluations;
      PP X(ds[seq[0]].b, ds[seq[0]].C, ds[seq[0]].nc); (void)probe(X); (void)X.derivative(1);
      for (long n = 1; n <= nmax; ++n) { int d = seq[n % seq.size()]; X.update(ds[d].b, ds[d].C, ds[d].nc); PP cp(X); ++c.st.comparisons;
        if (!same(probe(cp), want[d])) { c.st.violate(unit, fmt("%s: after one evaluation and %ld updates with no evaluation in between, a copy of the object does not evaluate to its latest data (stale cache served)", tag, n), {{"what", "silent-updates"}}); break; }
        if ((n & 1023) == 0 && c.out_of_time()) break; }
      c.st.cls("silent-update runs (copy observed)"); if (!c.st.seen(unit)) ++c.st.nontrivial; }
    unit = fmt("%s: silent updates variant %d (object observed) every n<=%d", tag, variant, nexact);
    if (c.begin(unit)) { ++c.st.evaluations;
      for (int n = 1; n <= nexact; ++n) { PP X(ds[seq[0]].b, ds[seq[0]].C, ds[seq[0]].nc); (void)probe(X); int d = seq[0];
        for (int i = 1; i <= n; ++i) { d = seq[i % seq.size()]; X.update(ds[d].b, ds[d].C, ds[d].nc); } ++c.st.comparisons;
        if (!same(probe(X), want[d])) { c.st.violate(unit, fmt("%s: after one evaluation and exactly %d updates with no evaluation in between, evaluate() does not return the latest data (stale cache served)", tag, n), {{"what", "silent-updates"}}); break; } }
      c.st.cls("silent-update runs (object observed)"); if (!c.st.seen(unit)) ++c.st.nontrivial; }
  }
}
template <class SW> void silent_spline(Ctx &c, const char *tag, long nmax, int nexact) {
  typedef typename SW::Sp Sp; typedef typename SW::PP PP; typedef typename PP::VectorType Vec;
  const auto &ps = SW::problems();
  for (int variant = 0; variant < 2; ++variant) {
    const std::vector<int> seq = variant == 0 ? std::vector<int>{0, 1} : std::vector<int>{0, 2, 3, 4};   // same N only / N, start time change as well
    std::vector<std::vector<Vec>> want(ps.size());
    auto probe = [&](const PP &o) { std::vector<Vec> v; for (int k = 0; k <= 2; ++k) { v.push_back(o.evaluate(0.3125, k)); v.push_back(o.evaluate(o.getStartTime() + 0.3 * o.getDuration(), k)); } return v; };
    for (int d : seq) { Sp f(ps[d].T, ps[d].P, ps[d].t0, ps[d].bc); want[d] = probe(f.getTrajectory()); }
    auto same = [&](const std::vector<Vec> &a, const std::vector<Vec> &b) { for (size_t i = 0; i < a.size(); ++i) if (!bits_equal(a[i].data(), b[i].data(), (size_t)a[i].size())) return false; return true; };
    auto upd = [&](Sp &s, long n, int d) { if (n & 2) s.update(ps[d].timepoints(), ps[d].P, ps[d].bc); else s.update(ps[d].T, ps[d].P, ps[d].t0, ps[d].bc); (void)s.getEnergy(); };   // an optimizer loop: energy queried, trajectory never evaluated
    std::string unit = fmt("%s: silent updates variant %d (copy observed) n=1..%ld", tag, variant, nmax);
    if (c.begin(unit)) { ++c.st.evaluations;
      Sp X(ps[seq[0]].T, ps[seq[0]].P, ps[seq[0]].t0, ps[seq[0]].bc); (void)probe(X.getTrajectory());
      for (long n = 1; n <= nmax; ++n) { int d = seq[n % seq.size()]; upd(X, n, d); ++c.st.comparisons; bool ok;
        if (n & 1) { Sp cp(X); ok = same(probe(cp.getTrajectory()), want[d]); } else { PP cp = X.getTrajectoryCopy(); ok = same(probe(cp), want[d]); }
        if (!ok) { c.st.violate(unit, fmt("%s: after one evaluation and %ld updates with no evaluation in between, a copy (%s) does not evaluate to the latest fit (stale cache served)", tag, n, (n & 1) ? "spline copy" : "getTrajectoryCopy()"), {{"what", "silent-updates"}}); break; }
        if ((n & 1023) == 0 && c.out_of_time()) break; }
      c.st.cls("silent-update runs (copy observed)"); if (!c.st.seen(unit)) ++c.st.nontrivial; }
    unit = fmt("%s: silent updates variant %d (object observed) every n<=%d", tag, variant, nexact);
    if (c.begin(unit)) { ++c.st.evaluations;
      for (int n = 1; n <= nexact; ++n) { Sp X(ps[seq[0]].T, ps[seq[0]].P, ps[seq[0]].t0, ps[seq[0]].bc); (void)probe(X.getTrajectory()); int d = seq[0];
        for (int i = 1; i <= n; ++i) { d = seq[i % seq.size()]; upd(X, i, d); } ++c.st.comparisons;
        if (!same(probe(X.getTrajectory()), want[d])) { c.st.violate(unit, fmt("%s: after one evaluation and exactly %d updates with no evaluation in between, the trajectory does not evaluate to the latest fit (stale cache served)", tag, n), {{"what", "silent-updates"}}); break; } }
      c.st.cls("silent-update runs (object observed)"); if (!c.st.seen(unit)) ++c.st.nontrivial; }
  }
}

int main(int argc, char **argv) {
  Args a = parse_args(argc, argv);
  return supervise(a, [&](Ctx &c) {
    const int depth = c.args.thorough() ? 20 : (VWORLD < 3 ? 8 : 6);
#if VWORLD == 0
    typedef PPWorld<2, Eigen::Dynamic> W; const char *tag = "PPolyND<2,Dynamic>";
#elif VWORLD == 1
    typedef PPWorld<2, 8> W; const char *tag = "PPolyND<2,8>";
#elif VWORLD == 2
    typedef PPWorld<1, 12> W; const char *tag = "PPolyND<1,12>";
#elif VWORLD == 3
    typedef SplineWorld<2, 2> W; const char *tag = "CubicSplineND<2>";
#elif VWORLD == 4
    typedef SplineWorld<3, 2> W; const char *tag = "QuinticSplineND<2>";
#else
    typedef SplineWorld<4, 2> W; const char *tag = "SepticSplineND<2>";
#endif
    BfsResult r = bfs(c, tag, [] { return std::unique_ptr<W>(new W()); }, depth, c.args.thorough() ? 4 : 3);
    note_bfs(c, tag, r, depth);
    const long nmax = 70000; const int nexact = c.args.thorough() ? 1100 : 600;   // beyond 2^16 (+ margin) / beyond 2 x 2^8 and 2^10
#if VWORLD < 3
    silent_pp<W>(c, tag, nmax, nexact);
#else
    silent_spline<W>(c, tag, nmax, nexact);
#endif
  });
}
