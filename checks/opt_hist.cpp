// opt_hist.cpp -- E2 history explorations on SplineOptimizer:
//   -DVPROP=9  : reconfiguration histories (flags, spatial map, new initial state, copy) vs the layout model
//   -DVPROP=10 : one Workspace reused across evaluations of different optimizers / sizes / overloads
//   -DVPROP=15 : copy construction / assignment / source mutation / source destruction (run under AddressSanitizer)
// -DVORDER=2|3|4
#include "optkit.hpp"
#include "canon.hpp"
#include "explore.hpp"
#include <memory>
#ifndef VPROP
#define VPROP 9
#endif
#ifndef VORDER
#define VORDER 3
#endif
using namespace vf;
static const int D = 2, S = VORDER, ORD = 2 * S - 1, M = 2 * S;
typedef Spl<S, D> Sp;
typedef SplineOptimizer<D, Sp, VTimeMap, VMap<D>> Opt;   // stateful harness maps as DEFAULT map types (a dangling pointer to one is dereferenced)
typedef Opt::Workspace WS;

static const std::vector<Problem<D>> &problems() {
  static std::vector<Problem<D>> ps;
  if (ps.empty()) { ps.push_back(opt_problem<D>(S, 1, 41, 0.0)); ps.push_back(opt_problem<D>(S, 3, 42, 1.5)); ps.push_back(opt_problem<D>(S, 2, 43, -0.5)); ps.push_back(opt_problem<D>(S, 4, 44, 0.25));
    // ps[4]: the durations and inner waypoints of ps[1], but other end points, boundary derivatives and start time: with flags 0x00 the decision
    // vectors of ps[1] and ps[4] are interchangeable bit for bit, the splines they define are not (seeded change C09-m8)
    { Problem<D> q = ps[1]; Problem<D> o = opt_problem<D>(S, 3, 45, 2.75); q.t0 = o.t0; q.bc = o.bc; q.P.row(0) = o.P.row(0); q.P.row(q.N) = o.P.row(o.N); ps.push_back(q); } }
  return ps;
}
static const unsigned MASKS[4] = {0x00, 0xff, 0x11, 0x22};
struct Model { int prob = -1; unsigned mask = 0; int tm = 0, sm = 0; bool ws = false; bool alive = false; bool fresh = false; int qv = 0; bool valid = true; };   // qv: which evaluation vector the fresh built-in query used (0: 1.25 + i/32, 1: 1.5 + i/16); valid: the last setInitState was accepted   // fresh: the last operation on the built-in workspace was a query at the history's evaluation vector and nothing was reconfigured since  // tm/sm: 0 default, 1 user A, 2 user B
struct UserMaps { VTimeMap ta{0.125}, tb{0.03125}; VMap<D> sa{1, 1.5, 0.25}, sb{0, 2.0, 0.5}; };

static const VTimeMap &tm_of(const UserMaps &u, int r) { static VTimeMap d; return r == 0 ? d : r == 1 ? u.ta : u.tb; }
static const VMap<D> &sm_of(const UserMaps &u, int r) { static VMap<D> d; return r == 0 ? d : r == 1 ? u.sa : u.sb; }

// expected behaviour of an optimizer described by `m`: dimension by the layout model, and evaluation equal (bitwise) to a
// freshly configured equivalent optimizer
static std::string check_opt(const Opt &o, const Model &m, const UserMaps &u, const char *name, Canon &dg) {
  if (m.prob < 0) { if (o.isValid()) return std::string(name) + ": never initialised but reports valid"; return ""; }
  if (!m.valid) { if (o.isValid() || (bool)o) return std::string(name) + ": the last setInitState was rejected but the optimizer reports valid"; return ""; }
  const Problem<D> &p = problems()[m.prob];
  const VMap<D> &sm = sm_of(u, m.sm);
  Layout L = layout_model(ORD, p.N, D, m.mask, [&](int i) { return sm.getUnconstrainedDimNoSched(i); });
  if (!o.isValid()) return std::string(name) + ": valid problem but isValid() is false";
  if (o.getDimension() != L.total) return fmt("%s: getDimension() = %d, layout model = %d", name, o.getDimension(), L.total);
  Opt fresh; if (m.tm) fresh.setTimeMap(&tm_of(u, m.tm)); if (m.sm) fresh.setSpatialMap(&sm_of(u, m.sm));
  fresh.setOptimizationFlags(flags_of(m.mask)); fresh.setEnergyWeights(0.25); fresh.setIntegralNumSteps(2); fresh.setInitState(p.T, p.P, p.t0, p.bc);
  // before the check touches the built-in workspace: right after evaluate() / checkGradients() at the history's evaluation vector the exposed
  // spline is the one that vector defines (a self-check must put the workspace back: seeded change C10-m8)
  if (m.fresh) { Eigen::VectorXd xh(L.total), gf; for (int i = 0; i < L.total; ++i) xh(i) = m.qv ? 1.5 + i / 16.0 : 1.25 + i / 32.0; TimeCost tc2; RunCost<D> rc2 = RunCost<D>::mode(5); WS wf; (void)o.evaluate(xh, gf, tc2, rc2, &wf);
    const Sp *os = o.getOptimalSpline(); if (!os || !mat_bits_equal(os->getTrajectory().getCoefficients(), wf.spline.getTrajectory().getCoefficients()) || os->getTrajectory().getBreakpoints() != wf.spline.getTrajectory().getBreakpoints())
      return fmt("%s: after evaluate()/checkGradients() on the built-in workspace, getOptimalSpline() is not the spline defined by the queried decision vector", name); }
  // FIRST query on the built-in workspace, at the very vector the history's own evaluate() operations use: a result memoised on x must not
  // survive a reconfiguration (this has to precede every other built-in evaluation of the check, which would overwrite such a memo)
  { Eigen::VectorXd xh(L.total), gh, gf; for (int i = 0; i < L.total; ++i) xh(i) = 1.25 + i / 32.0; TimeCost tc2; RunCost<D> rc2 = RunCost<D>::mode(5); WS wfh; double cb = o.evaluate(xh, gh, tc2, rc2), cf = o.evaluate(xh, gf, tc2, rc2, &wfh); dg.d(cb);
    if (!bits_equal(cb, cf) || gh.size() != gf.size() || !bits_equal(gh.data(), gf.data(), gf.size()) || !o.getOptimalSpline() || !mat_bits_equal(o.getOptimalSpline()->getTrajectory().getCoefficients(), wfh.spline.getTrajectory().getCoefficients()) || o.getOptimalSpline()->getTrajectory().getBreakpoints() != wfh.spline.getTrajectory().getBreakpoints())
      return fmt("%s: evaluate() at the history's evaluation vector with the built-in workspace (cost %.17g) differs from the same call with a fresh explicit workspace (cost %.17g), or the exposed spline is not the one of that vector", name, cb, cf); }
  Eigen::VectorXd x(L.total); for (int i = 0; i < L.total; ++i) x(i) = 1.0 + i / 64.0;
  TimeCost tc; WaypointCost wc; RunCost<D> rc = RunCost<D>::mode(9);
  WS w1, w2; Eigen::VectorXd g1, g2; double c1 = o.evaluate(x, g1, tc, wc, rc, &w1), c2 = fresh.evaluate(x, g2, tc, wc, rc, &w2);
  dg.d(c1); dg.mat(g1);
  { Eigen::VectorXd g3; double c3 = o.evaluate(x, g3, tc, wc, rc); if (!bits_equal(c3, c1) || g3.size() != g1.size() || !bits_equal(g3.data(), g1.data(), g1.size())) return fmt("%s: evaluate() with the built-in workspace (%.17g) differs from the same call with a fresh explicit workspace (%.17g)", name, c3, c1); }
  if (!bits_equal(c1, c2) || g1.size() != g2.size() || !bits_equal(g1.data(), g2.data(), g1.size())) return fmt("%s: evaluate() differs from a freshly configured equivalent optimizer (cost %.17g vs %.17g)", name, c1, c2);
  // decode per the model: durations = toTime(x_i), optimised waypoints = toPhysical(slice), flagged blocks = slices
  const VTimeMap &tm = tm_of(u, m.tm);
  // the initial guess decodes back to the reference durations whichever overload stored them (seeded change C09-m9: first duration of the
  // time-point overload taken as t[1] instead of t[1] - t[0])
  { Eigen::VectorXd x0 = o.generateInitialGuess(); if (x0.size() != L.total) return fmt("%s: generateInitialGuess() has %ld entries, layout model %d", name, (long)x0.size(), L.total);
    for (int i = 0; i < p.N; ++i) { const double Ti = tm.prm[0] + x0(i) * x0(i); if (!(std::fabs(Ti - p.T[i]) <= 1e-12 * p.T[i])) return fmt("%s: the initial guess decodes duration %d to %.17g, the reference is %.17g", name, i, Ti, p.T[i]); } }
  for (int i = 0; i < p.N; ++i) if (w1.spline.getTimeSegments()[i] != tm.prm[0] + x(i) * x(i)) return fmt("%s: duration %d is not toTime(x_%d) of the active time map", name, i, i);
  for (size_t q = 0; q < L.pt_index.size(); ++q) { Eigen::VectorXd pp = sm.toPhysical(x.segment(L.pt_off[q], L.pt_dof[q]), L.pt_index[q]); for (int d = 0; d < D; ++d) if (w1.spline.getSpacePoints()(L.pt_index[q], d) != pp(d)) return fmt("%s: waypoint %d is not the model's slice of x through the active spatial map", name, L.pt_index[q]); }
  for (int i = 0; i <= p.N; ++i) { bool opt = i == 0 ? (m.mask & 1) : i == p.N ? (m.mask & 16) : true; if (!opt) for (int d = 0; d < D; ++d) if (w1.spline.getSpacePoints()(i, d) != p.P(i, d)) return fmt("%s: unflagged waypoint %d moved", name, i); }
  return "";
}
// the canonical key also holds the PARAMETERS of the optimizer's own default maps (harness types): an assignment that writes the wrong
// map object into default_time_map_ changes nothing else in the private state
static void canon_add_defaults(Canon &c, const Opt &o) { c.vec(o.default_time_map_.prm); c.i(o.default_spatial_map_.mode); c.vec(o.default_spatial_map_.prm); }

#if VPROP == 9
struct World {
  UserMaps u; std::unique_ptr<Opt> X, Y; Model mx, my;
  World() : X(new Opt()) { mx.alive = true; X->setEnergyWeights(0.25); X->setIntegralNumSteps(2); }
  int nops() const { return 21; }
  bool enabled(int op) const { if ((op >= 11 && op <= 13) || op == 19) return mx.prob >= 0; if (op == 16 || op == 17) return (bool)Y; return true; }
  std::string opname(int op) const { static const char *n[] = {"flags=0x00", "flags=0xff", "flags=0x11", "flags=0x22", "setSpatialMap(null)", "setSpatialMap(Proj A)", "setSpatialMap(Scale B)", "setInitState(dur,N=1)", "setInitState(dur,N=3)", "setInitState(tp,N=1)", "setInitState(tp,N=3)",
      "getDimension()", "generateInitialGuess()", "evaluate()", "Y = Opt(X) copy-ctor", "Y = X (assign)", "swap X<->Y", "Y.setSpatialMap(Proj A)", "setInitState(dur,N=3 with the same durations and inner waypoints, other end points / boundary state / start time)", "checkGradients() (built-in workspace)",
      "user map A reconfigured in place (Proj <-> Scale: the per-point dofs change) and registered again, at the same address, on every optimizer that uses it"}; return n[op]; }
  void apply(int op) {
    if (op <= 10 || op == 18) mx.fresh = false; if (op == 17) my.fresh = false;
    // seeded change C09-m12: setSpatialMap() returning early when the pointer is the active one keeps the layout of the map's former configuration
    if (op == 20) { u.sa.mode = u.sa.mode == 1 ? 0 : 1; if (mx.sm == 1) { X->setSpatialMap(&u.sa); mx.fresh = false; } if (Y && my.sm == 1) { Y->setSpatialMap(&u.sa); my.fresh = false; } return; }
    if (op == 18) { const auto &p = problems()[4]; X->setInitState(p.T, p.P, p.t0, p.bc); mx.prob = 4; }
    else if (op == 19) { Eigen::VectorXd x = X->generateInitialGuess(); for (int i = 0; i < x.size(); ++i) x(i) = 1.25 + i / 32.0; TimeCost tc; RunCost<D> rc = RunCost<D>::mode(5); (void)X->checkGradients(x, tc, rc); mx.ws = true; mx.fresh = true; }
    else if (op < 4) { X->setOptimizationFlags(flags_of(MASKS[op])); mx.mask = MASKS[op]; }
    else if (op < 7) { int r = op - 4; X->setSpatialMap(r == 0 ? nullptr : &sm_of(u, r)); mx.sm = r; }
    else if (op < 11) { int pi = (op - 7) % 2; const auto &p = problems()[pi]; if (op < 9) X->setInitState(p.T, p.P, p.t0, p.bc); else X->setInitState(p.timepoints(), p.P, p.bc); mx.prob = pi; }
    else if (op == 11) (void)X->getDimension();
    else if (op == 12) (void)X->generateInitialGuess();
    else if (op == 13) { Eigen::VectorXd x = X->generateInitialGuess(), g; for (int i = 0; i < x.size(); ++i) x(i) = 1.25 + i / 32.0; TimeCost tc; RunCost<D> rc = RunCost<D>::mode(5); (void)X->evaluate(x, g, tc, rc); mx.ws = true; mx.fresh = true; }   // NOT the reference: every block of x differs from the stored problem
    else if (op == 14) { Y.reset(new Opt(*X)); my = mx; }
    else if (op == 15) { if (!Y) Y.reset(new Opt()); *Y = *X; my = mx; }
    else if (op == 16) { std::swap(X, Y); std::swap(mx, my); }
    else if (op == 17) { Y->setSpatialMap(&u.sa); my.sm = 1; }
  }
  std::string canon() const { Canon c; canon_add_opt(c, *X, false); canon_add_defaults(c, *X); c.i(u.sa.mode); c.i(mx.prob); c.i(mx.sm); c.i(mx.fresh); c.i(Y ? 1 : 0); if (Y) { canon_add_opt(c, *Y, false); canon_add_defaults(c, *Y); c.i(my.prob); c.i(my.sm); c.i(my.fresh); } return c.s; }
  std::string check(std::string &digest) { Canon dg; std::string m = check_opt(*X, mx, u, "X", dg); if (m.empty() && Y) m = check_opt(*Y, my, u, "Y", dg); digest = dg.s; return m; }
};
static const char *TAG = "optimizer reconfiguration";
#elif VPROP == 15
struct World {
  UserMaps *u; std::unique_ptr<Opt> A, B; Model ma, mb;   // user maps live on the heap: one op changes a parameter
  World() : u(new UserMaps()), A(new Opt()) { ma.alive = true; A->setEnergyWeights(0.25); A->setIntegralNumSteps(2); }
  ~World() { A.reset(); B.reset(); delete u; }
  int nops() const { return 17; }
  bool enabled(int op) const { if (op == 6) return ma.prob >= 0 && ma.valid; if (op == 15) return (bool)B && mb.prob >= 0 && mb.valid; if (op == 9 || op == 12 || op == 13) return (bool)B; if (op == 10 || op == 11) return (bool)B && ma.alive; return true; }
  std::string opname(int op) const { static const char *n[] = {"A.setInitState(p1)", "A.setInitState(p2)", "A.setTimeMap(user)", "A.setTimeMap(null)", "A.setSpatialMap(user)", "A.setSpatialMap(null)", "A.evaluate() (built-in workspace)",
      "B = new Opt(A)", "B = A (assign; B default-made if absent)", "A = A", "delete A; A = B (ownership moves)", "swap A<->B", "B.setInitState(p3) (mutate copy)", "B.setOptimizationFlags(0xff)", "change the user maps' parameters", "B.evaluate() at another vector (built-in workspace)", "A.setInitState(rejected: a duration below 1 ms)"}; return n[op]; }
  void apply(int op) {
    const auto &ps = problems();
    if (op <= 5 || op == 16) ma.fresh = false; if (op == 12 || op == 13) mb.fresh = false;
    if (op == 14) { ma.fresh = false; mb.fresh = false; }   // the user maps' parameters decide what a decision vector decodes to
    if (op == 15) { Eigen::VectorXd x = B->generateInitialGuess(), g; for (int i = 0; i < x.size(); ++i) x(i) = 1.5 + i / 16.0; TimeCost tc; RunCost<D> rc = RunCost<D>::mode(5); (void)B->evaluate(x, g, tc, rc); mb.ws = true; mb.fresh = true; mb.qv = 1; return; }
    if (op == 16) { Problem<D> q = ps[1]; q.T[q.N - 1] = 0.0005; bool ok = A->setInitState(q.T, q.P, q.t0, q.bc); (void)ok; ma.valid = false; return; }
    if (op < 2) { const auto &p = ps[op + 1]; A->setInitState(p.T, p.P, p.t0, p.bc); ma.prob = op + 1; ma.valid = true; }
    else if (op == 2) { A->setTimeMap(&u->ta); ma.tm = 1; } else if (op == 3) { A->setTimeMap(nullptr); ma.tm = 0; }
    else if (op == 4) { A->setSpatialMap(&u->sa); ma.sm = 1; } else if (op == 5) { A->setSpatialMap(nullptr); ma.sm = 0; }
    else if (op == 6) { Eigen::VectorXd x = A->generateInitialGuess(), g; for (int i = 0; i < x.size(); ++i) x(i) = 1.25 + i / 32.0; TimeCost tc; RunCost<D> rc = RunCost<D>::mode(5); (void)A->evaluate(x, g, tc, rc); ma.ws = true; ma.fresh = true; ma.qv = 0; }
    else if (op == 7) { B.reset(new Opt(*A)); mb = ma; }
    else if (op == 8) { if (!B) B.reset(new Opt()); *B = *A; mb = ma; }
    else if (op == 9) { Opt &r = *A; *A = r; }
    else if (op == 10) { A.reset(); A = std::move(B); ma = mb; mb = Model(); }   // the source dies; the copy must keep working
    else if (op == 11) { std::swap(A, B); std::swap(ma, mb); }
    else if (op == 12) { const auto &p = ps[3]; B->setInitState(p.T, p.P, p.t0, p.bc); mb.prob = 3; mb.valid = true; }
    else if (op == 13) { B->setOptimizationFlags(flags_of(0xff)); mb.mask = 0xff; }
    else if (op == 14) { u->ta.prm[0] = u->ta.prm[0] == 0.125 ? 0.1875 : 0.125; u->sa.prm[0] = u->sa.prm[0] == 1.5 ? 1.75 : 1.5; }
  }
  std::string canon() const { Canon c; canon_add_opt(c, *A, true); canon_add_defaults(c, *A); c.i(ma.prob); c.i(ma.tm); c.i(ma.sm); c.i(ma.fresh); c.i(ma.qv); c.i(ma.valid); c.i(B ? 1 : 0); if (B) { canon_add_opt(c, *B, true); canon_add_defaults(c, *B); c.i(mb.prob); c.i(mb.tm); c.i(mb.sm); c.i(mb.fresh); c.i(mb.qv); c.i(mb.valid); } c.d(u->ta.prm[0]); return c.s; }
  std::string roles(const Opt &o, const Model &m, const char *name, const Opt *other) const {
    const VTimeMap *wt = m.tm ? &u->ta : &o.default_time_map_; const VMap<D> *wsm = m.sm ? &u->sa : &o.default_spatial_map_;
    if (o.active_time_map_ != wt) return fmt("%s: active time map is not %s", name, m.tm ? "the user map" : "its OWN default map");
    if (o.active_spatial_map_ != wsm) return fmt("%s: active spatial map is not %s", name, m.sm ? "the user map" : "its OWN default map");
    if (other && o.internal_ws_ && other->internal_ws_ && o.internal_ws_.get() == other->internal_ws_.get()) return std::string(name) + ": built-in workspace shared with another optimizer";
    // a copy / assigned instance exposes a built-in-workspace spline exactly when its source did at the time of the copy
    if ((o.getOptimalSpline() != nullptr) != m.ws) return fmt("%s: getOptimalSpline() is %s but the modelled optimizer %s a built-in workspace (an assigned optimizer must not keep its old workspace)", name, o.getOptimalSpline() ? "non-null" : "null", m.ws ? "has" : "has no");
    return "";
  }
  std::string check(std::string &digest) {
    Canon dg; std::string m = roles(*A, ma, "A", B.get()); if (m.empty() && B) m = roles(*B, mb, "B", A.get());
    if (m.empty()) m = check_opt(*A, ma, *u, "A", dg); if (m.empty() && B) m = check_opt(*B, mb, *u, "B", dg);
    // copies stay usable through their own built-in workspace too
    if (m.empty()) for (int k = 0; k < 2; ++k) { Opt *o = k == 0 ? A.get() : B.get(); const Model &mm = k == 0 ? ma : mb; if (!o || mm.prob < 0 || !mm.valid) continue; Eigen::VectorXd x = o->generateInitialGuess(), g; TimeCost tc; RunCost<D> rc = RunCost<D>::mode(5); double cv = o->evaluate(x, g, tc, rc); dg.d(cv); if (!o->getOptimalSpline()) m = "getOptimalSpline() null after evaluate"; }
    digest = dg.s; return m;
  }
};
static const char *TAG = "optimizer copies";
#elif VPROP == 10
struct World {
  UserMaps u; std::vector<std::unique_ptr<Opt>> opts; WS ws;
  World() {
    const auto &ps = problems();
    for (int k = 0; k < 4; ++k) { opts.emplace_back(new Opt()); Opt &o = *opts.back(); const auto &p = ps[k == 1 ? 3 : 2]; o.setOptimizationFlags(flags_of(k == 2 ? 0xff : 0x22)); o.setEnergyWeights(k == 1 ? 0.0 : 0.25); o.setIntegralNumSteps(2);
      if (k == 2) { Problem<D> q = p; set_generic_data(q, 99); o.setInitState(q.T, q.P, 3.0, q.bc); }
      else if (k == 3) { Problem<D> q = p; q.bc.start_acceleration *= -1.0; q.bc.end_acceleration.setConstant(0.75); q.bc.start_jerk.setConstant(-0.5); o.setInitState(q.T, q.P, p.t0, q.bc); }   // D: identical to A (layout, durations, ALL waypoints, start time) except for FIXED boundary accelerations / jerk
      else o.setInitState(p.T, p.P, p.t0, p.bc); }
  }
  int nops() const { return 16; }   // optimizer k (4) x decision vector (2) x overload (2); D is evaluated at A's decision vectors (bit-identical x)
  bool enabled(int) const { return true; }
  std::string opname(int op) const { return fmt("evaluate(opt %c, x%d, %s-cost overload) on the shared workspace", "ABCD"[op / 4], (op / 2) % 2, (op % 2) ? "3" : "2"); }
  double call(int op, WS *w, Eigen::VectorXd &g) {
    Opt &o = *opts[op / 4]; Eigen::VectorXd x = opts[op / 4 == 3 ? 0 : op / 4]->generateInitialGuess(); if ((op / 2) % 2) for (int i = 0; i < x.size(); ++i) x(i) += (((i * 7) % 11) - 5) / 32.0;
    TimeCost tc; WaypointCost wc; RunCost<D> rc = RunCost<D>::mode(9);
    return (op % 2) ? o.evaluate(x, g, tc, wc, rc, w) : o.evaluate(x, g, tc, rc, w);
  }
  int last = -1;
  void apply(int op) { Eigen::VectorXd g; (void)call(op, &ws, g); last = op; }
  std::string canon() const { Canon c; canon_add_ws(c, ws); return c.s; }
  std::string check(std::string &digest) {
    // every possible next call on the reused workspace must equal the same call on a fresh workspace, bitwise
    Canon dg;
    for (int op = 0; op < nops(); ++op) { WS copy = ws; WS fresh; Eigen::VectorXd g1, g2; double c1 = call(op, &copy, g1), c2 = call(op, &fresh, g2); dg.d(c1); dg.mat(g1);
      if (!bits_equal(c1, c2) || g1.size() != g2.size() || !bits_equal(g1.data(), g2.data(), g1.size())) return fmt("%s gives cost %.17g / a gradient different from the same call on a fresh workspace (%.17g)", opname(op).c_str(), c1, c2);
      if (!mat_bits_equal(copy.spline.getTrajectory().getCoefficients(), fresh.spline.getTrajectory().getCoefficients())) return opname(op) + ": workspace spline differs from a fresh workspace's"; }
    digest = dg.s; return "";
  }
};
static const char *TAG = "workspace reuse";
#endif

int main(int argc, char **argv) {
  Args a = parse_args(argc, argv);
  return supervise(a, [&](Ctx &c) {
    const bool th = c.args.thorough();
    const int depth = VPROP == 9 ? (th ? 8 : 5) : VPROP == 15 ? (th ? 7 : 5) : (th ? 5 : 4);
    std::string tag = fmt("%s/%s", TAG, order_name(S));
    BfsResult r = bfs(c, tag, [] { return std::unique_ptr<World>(new World()); }, depth, c.args.thorough() ? 4 : 3);
    note_bfs(c, tag, r, depth);
  });
}
