// C05 (propagateGrad is the exact adjoint) and C06 (analytic energy gradients) -- E1; R2 jets through R1; argument L.
// -DVDIM=<d> -DVPROP=5|6.
#include "splinekit.hpp"
#ifndef VDIM
#define VDIM 2
#endif
#ifndef VPROP
#define VPROP 5
#endif
using namespace vf;
static const int D = VDIM;
typedef Problem<D> Prob;

static double thr_jac(int S) { return S == 2 ? 1e-8 : S == 3 ? 1e-7 : 1e-6; }   // solver-dependent (DESIGN s7)
// energy gradients involve cancellation between O(|E|/T) terms: worst observed on the thorough lattice 1.2e-10 / 3.4e-11 / 7.4e-10
static double thr_egrad(int S) { return S == 4 ? 1e-6 : 1e-7; }
// equal (or nearly equal) durations: the block systems are perfectly conditioned, so a much tighter figure applies
static double thr_jac_uniform(int S) { return S == 2 ? 1e-12 : S == 3 ? 1e-11 : 1e-10; }   // worst observed 4.9e-16 / 4.0e-15 / 3.4e-14 (thorough lattice incl. N = 64)
static double thr_egrad_uniform(int S) { return S == 2 ? 3e-12 : S == 3 ? 1e-10 : 2e-8; }   // worst observed 1.6e-15 / 3.3e-14 / 2.4e-11
template <class P> static bool uniform_durations(const P &p) { for (int i = 1; i < p.N; ++i) if (std::fabs(p.T[i] - p.T[0]) > 1e-6 * p.T[0]) return false; return true; }
static double thr_closed() { return 1e-11; }                                      // closed forms on published coefficients

// d(energy of one piece)/d(coefficients) and explicit d/dT, exact formulas in long double
static void energy_piece_grad(const LD *c, int m, int s, LD T, LD *gc, LD &gT) {
  int n = m - s; LD q[16], pw[40]; pw[0] = 1; for (int i = 1; i < 2 * n + 2; ++i) pw[i] = pw[i - 1] * T;
  for (int a = 0; a < n; ++a) q[a] = fallfac(a + s, s) * c[a + s];
  for (int k = 0; k < m; ++k) gc[k] = 0;
  for (int a = 0; a < n; ++a) { LD sum = 0; for (int b = 0; b < n; ++b) sum += q[b] * pw[a + b + 1] / (LD)(a + b + 1); gc[a + s] = 2 * fallfac(a + s, s) * sum; }
  LD v = 0; for (int a = n - 1; a >= 0; --a) v = v * T + q[a]; gT = v * v;
}

template <int S> struct Runner {
  typedef Spl<S, D> Sp;
  typedef typename Sp::MatrixType Mat;
  typedef typename Sp::Gradients Grads;
  static const int M = 2 * S;
  Ctx &c; const std::string &unit; const RefJac &J;
  Runner(Ctx &c_, const std::string &u, const RefJac &j) : c(c_), unit(u), J(j) {}
  void fail(const std::string &what, const Prob &p, const std::string &detail) {
    c.st.violate(unit, fmt("%s D=%d: %s: %s | %s", order_name(S), D, what.c_str(), detail.c_str(), describe(p).c_str()),
                 {{"order", order_name(S)}, {"what", what}});
  }
  // normalisation to position units: row r = (seg,k) -> T_seg^k ; column: T_i -> T_i, waypoint -> 1, boundary deriv k -> T_adjacent^k
  std::vector<LD> rowscale(const Prob &p) const { std::vector<LD> r(M * p.N); for (int i = 0; i < p.N; ++i) { LD t = 1; for (int k = 0; k < M; ++k) { r[i * M + k] = t; t *= (LD)p.T[i]; } } return r; }
  std::vector<LD> colscale_data(const Prob &p) const {
    int N = p.N, nb = J.nb; std::vector<LD> cs(nb, 1);
    for (int side = 0; side < 2; ++side) { LD T = side == 0 ? p.T[0] : p.T[N - 1], t = T; for (int k = 1; k <= S - 1; ++k) { cs[(N + 1) + side * (S - 1) + (k - 1)] = t; t *= T; } }
    return cs;
  }
  static bool grads_bits_equal(const Grads &a, const Grads &b) {
    bool ok = mat_bits_equal(a.inner_points, b.inner_points) && a.times.size() == b.times.size() && bits_equal(a.times.data(), b.times.data(), a.times.size());
    ok = ok && bits_equal(a.start.p.data(), b.start.p.data(), D) && bits_equal(a.start.v.data(), b.start.v.data(), D) && bits_equal(a.end.p.data(), b.end.p.data(), D) && bits_equal(a.end.v.data(), b.end.v.data(), D);
    if constexpr (S >= 3) ok = ok && bits_equal(a.start.a.data(), b.start.a.data(), D) && bits_equal(a.end.a.data(), b.end.a.data(), D);
    if constexpr (S >= 4) ok = ok && bits_equal(a.start.j.data(), b.start.j.data(), D) && bits_equal(a.end.j.data(), b.end.j.data(), D);
    return ok;
  }

  // ---------------- C05 ----------------
  void check_adjoint(const Prob &p) {
    const int N = p.N, nb = J.nb, n = M * N;
    Sp sp = build<S, D>(p);
    std::vector<LD> rs = rowscale(p), cs = colscale_data(p);
    std::vector<std::vector<LD>> alpha(D); for (int d = 0; d < D; ++d) alpha[d] = data_alpha(S, p, d);
    // reference dc_d[r]/dT_i for this data
    std::vector<std::vector<std::vector<LD>>> dT(D, std::vector<std::vector<LD>>(n, std::vector<LD>(N, 0)));
    for (int d = 0; d < D; ++d) for (int b = 0; b < nb; ++b) if (alpha[d][b] != 0) for (int r = 0; r < n; ++r) for (int i = 0; i < N; ++i) dT[d][r][i] += alpha[d][b] * J.dT[b][r][i];
    // global magnitude of the normalised Jacobian
    LD G = 0;
    for (int r = 0; r < n; ++r) { for (int b = 0; b < nb; ++b) G = std::max(G, fabsl(J.C[b][r]) * rs[r] * cs[b]); for (int d = 0; d < D; ++d) for (int i = 0; i < N; ++i) G = std::max(G, fabsl(dT[d][r][i]) * rs[r] * (LD)p.T[i]); }
    Mat gdC = Mat::Zero(n, D); Eigen::VectorXd gdT = Eigen::VectorXd::Zero(N);
    Grads out;
    // an object that reached this problem through a history gives the same adjoint (bitwise) for a dense upstream gradient
    { Lcg lg(31); Mat gd(n, D); Eigen::VectorXd gt(N); for (int r = 0; r < n; ++r) for (int d = 0; d < D; ++d) gd(r, d) = lg.dyadic(); for (int i = 0; i < N; ++i) gt(i) = lg.dyadic();
      Grads a = sp.propagateGrad(gd, gt); for (int v = 0; v < 4; ++v) { Sp h = build_with_history<S, D>(p, v); Grads b = h.propagateGrad(gd, gt); ++c.st.comparisons; if (!grads_bits_equal(a, b)) { fail("adjoint-after-history", p, "propagateGrad on a spline updated from a larger, fully queried problem differs from a fresh one"); return; } } }
    for (int r = 0; r < n; ++r) for (int d = 0; d < D; ++d) {
      gdC(r, d) = 1.0;
      sp.propagateGrad(gdC, gdT, out);
      gdC(r, d) = 0.0;
      if (out.times.size() != N || out.inner_points.rows() != std::max(0, N - 1)) { fail("adjoint-shape", p, "wrong output sizes"); return; }
      double worst = 0; int wi = -1;
      for (int i = 0; i < N; ++i) { double e = (double)(fabsl((LD)out.times(i) - dT[d][r][i]) * rs[r] * (LD)p.T[i] / G); if (e > worst) { worst = e; wi = i; } }
      for (int dd = 0; dd < D; ++dd) {
        std::vector<double> lib = grads_data_vec<S>(out, N, dd);
        for (int b = 0; b < nb; ++b) {
          LD ref = dd == d ? J.C[b][r] : 0.0L;
          double e = (double)(fabsl((LD)lib[b] - ref) * rs[r] * cs[b] / G);
          if (dd != d && lib[b] != 0.0) e = 1.0;  // a coefficient of coordinate d cannot depend on another coordinate's data
          if (e > worst) { worst = e; wi = 100 + dd * 100 + b; }
        }
      }
      ++c.st.comparisons;
      c.st.obs(fmt("adjoint_gdC/%s", order_name(S)), worst);
      if (uniform_durations(p)) { c.st.obs(fmt("adjoint_gdC(uniform durations)/%s", order_name(S)), worst); if (worst > thr_jac_uniform(S)) { fail("adjoint-gdC(uniform durations)", p, fmt("unit upstream on coefficient row %d coordinate %d: normalised error %.3g at output %d (tight threshold for equal durations)", r, d, worst, wi)); return; } }
      if (worst > thr_jac(S)) { fail("adjoint-gdC", p, fmt("unit upstream on coefficient row %d (seg %d, power %d) coordinate %d: normalised error %.3g at output %d", r, r / M, r % M, d, worst, wi)); return; }
    }
    for (int i = 0; i < N; ++i) {
      gdT(i) = 1.0; Grads g2 = sp.propagateGrad(gdC, gdT); gdT(i) = 0.0;
      bool ok = true;
      for (int j = 0; j < N; ++j) ok = ok && g2.times(j) == (j == i ? 1.0 : 0.0);
      for (int dd = 0; dd < D; ++dd) { std::vector<double> lib = grads_data_vec<S>(g2, N, dd); for (double v : lib) ok = ok && v == 0.0; }
      ++c.st.comparisons;
      if (!ok) { fail("adjoint-gdT", p, fmt("unit upstream on duration %d must pass through unchanged", i)); return; }
    }
  }
  // overloads, history independence, linearity (on one long-lived object)
  void check_adjoint_protocol(const Prob &p) {
    const int N = p.N, n = M * N;
    Lcg g((uint64_t)c.args.seed + 17);
    Mat A(n, D), B(n, D); Eigen::VectorXd a(N), b(N);
    for (int r = 0; r < n; ++r) for (int d = 0; d < D; ++d) { A(r, d) = g.dyadic(); B(r, d) = g.dyadic(); }
    for (int i = 0; i < N; ++i) { a(i) = g.dyadic(); b(i) = g.dyadic(); }
    Mat Z = Mat::Zero(n, D); Eigen::VectorXd z = Eigen::VectorXd::Zero(N);
    Mat U = Z; U(n - 1, D - 1) = 1.0;
    const Mat *ups[4] = {&A, &B, &Z, &U}; const Eigen::VectorXd *upt[4] = {&a, &b, &z, &z};
    Grads fresh[4];
    for (int k = 0; k < 4; ++k) { Sp s = build<S, D>(p); fresh[k] = s.propagateGrad(*ups[k], *upt[k]); }
    // the reference-output overload handed a caller object that last held a LARGER problem's result (shapes must shrink, nothing may survive),
    // and called IN PLACE (the caller's g.times is both the upstream duration gradient and the output): both equal the by-value result bitwise
    // (seeded changes C05-m10 / C05-m9)
    { Sp s0 = build<S, D>(p);
      for (int k = 0; k < 4; ++k) { Grads used; used.inner_points = Mat::Constant(N + 1, D, 7.5); used.times = Eigen::VectorXd::Constant(N + 2, -7.5); used.start.p.setConstant(7.5); used.start.v.setConstant(7.5); used.end.p.setConstant(7.5); used.end.v.setConstant(7.5);
        s0.propagateGrad(*ups[k], *upt[k], used); ++c.st.comparisons;
        if (used.inner_points.rows() != std::max(0, N - 1) || used.times.size() != N || !grads_bits_equal(used, fresh[k])) { fail("adjoint-overload", p, fmt("reference overload handed a Gradients object that last held a larger problem: shape %ldx%ld / %ld or values differ from the by-value result (upstream #%d)", (long)used.inner_points.rows(), (long)used.inner_points.cols(), (long)used.times.size(), k)); return; }
        Grads inpl; inpl.times = *upt[k]; s0.propagateGrad(*ups[k], inpl.times, inpl); ++c.st.comparisons;
        if (!grads_bits_equal(inpl, fresh[k])) { fail("adjoint-overload", p, fmt("reference overload called in place (g.times is the upstream duration gradient and the output) differs from the by-value result (upstream #%d)", k)); return; } } }
    // every sequence of length <= 3 of earlier calls, then each upstream: must equal the fresh object's result bitwise
    Sp sp = build<S, D>(p);
    for (int len = 0; len <= 3; ++len) {
      int nseq = 1; for (int i = 0; i < len; ++i) nseq *= 4;
      for (int q = 0; q < nseq; ++q) {
        int qq = q; for (int i = 0; i < len; ++i) { int k = qq % 4; qq /= 4; Grads tmp; if ((i + q) & 1) sp.propagateGrad(*ups[k], *upt[k], tmp); else (void)sp.propagateGrad(*ups[k], *upt[k]); }
        for (int k = 0; k < 4; ++k) {
          Grads v = sp.propagateGrad(*ups[k], *upt[k]);
          Grads r; sp.propagateGrad(*ups[k], *upt[k], r);
          ++c.st.comparisons;
          if (!grads_bits_equal(v, fresh[k])) { fail("adjoint-history", p, fmt("result for upstream #%d after call sequence %d (len %d) differs from a fresh object's", k, q, len)); return; }
          if (!grads_bits_equal(v, r)) { fail("adjoint-overload", p, "reference overload differs from value overload"); return; }
        }
      }
    }
    // the reference overload into a dirty, wrongly sized struct
    { Grads r; r.inner_points = Mat::Constant(7, D, 3.5); r.times = Eigen::VectorXd::Constant(3, -1.0); r.start.p.setConstant(9.0); r.end.v.setConstant(9.0);
      sp.propagateGrad(A, a, r); ++c.st.comparisons; if (!grads_bits_equal(r, fresh[0])) fail("adjoint-overload", p, "reference overload does not overwrite a dirty output struct"); }
    // linearity
    { Mat Cm = 2.0 * A - 0.5 * B; Eigen::VectorXd cm = 2.0 * a - 0.5 * b; Grads l = sp.propagateGrad(Cm, cm);
      double sc = 0, er = 0;
      auto acc = [&](double x, double fa, double fb) { double want = 2.0 * fa - 0.5 * fb; er = std::max(er, std::fabs(x - want)); sc = std::max(sc, std::max(std::fabs(fa), std::fabs(fb))); };
      for (int i = 0; i < N; ++i) acc(l.times(i), fresh[0].times(i), fresh[1].times(i));
      for (int d = 0; d < D; ++d) { auto x = grads_data_vec<S>(l, N, d), fa = grads_data_vec<S>(fresh[0], N, d), fb = grads_data_vec<S>(fresh[1], N, d); for (size_t i = 0; i < x.size(); ++i) acc(x[i], fa[i], fb[i]); }
      double res = sc > 0 ? er / sc : er; ++c.st.comparisons; c.st.obs(fmt("adjoint_linearity/%s", order_name(S)), res);
      if (res > thr_jac(S) * 10) fail("adjoint-linearity", p, fmt("f(2g-0.5h) != 2f(g)-0.5f(h): %.3g", res)); }
  }

  // ---------------- C06 ----------------
  void check_energy_grads(const Prob &p) {
    const int N = p.N, nb = J.nb, n = M * N;
    Sp sp = build<S, D>(p);
    std::vector<LD> cs = colscale_data(p);
    // reference gradient from the reference coefficients only
    std::vector<LD> gT(N, 0); std::vector<std::vector<LD>> gX(D, std::vector<LD>(nb, 0)); LD Eref = 0;
    for (int d = 0; d < D; ++d) {
      std::vector<LD> al = data_alpha(S, p, d), cc(n, 0);
      for (int b = 0; b < nb; ++b) if (al[b] != 0) for (int r = 0; r < n; ++r) cc[r] += al[b] * J.C[b][r];
      std::vector<LD> gE(n);
      for (int i = 0; i < N; ++i) { LD gc[16], gt; energy_piece_grad(&cc[i * M], M, S, (LD)p.T[i], gc, gt); for (int k = 0; k < M; ++k) gE[i * M + k] = gc[k]; gT[i] += gt; Eref += energy_piece(&cc[i * M], M, S, (LD)p.T[i]); }
      for (int b = 0; b < nb; ++b) { LD s = 0; for (int r = 0; r < n; ++r) s += gE[r] * J.C[b][r]; gX[d][b] = s; }
      for (int b = 0; b < nb; ++b) if (al[b] != 0) for (int i = 0; i < N; ++i) { LD s = 0; for (int r = 0; r < n; ++r) s += gE[r] * J.dT[b][r][i]; gT[i] += al[b] * s; }
    }
    LD G = fabsl(Eref);
    for (int i = 0; i < N; ++i) G = std::max(G, fabsl(gT[i]) * (LD)p.T[i]);
    for (int d = 0; d < D; ++d) for (int b = 0; b < nb; ++b) G = std::max(G, fabsl(gX[d][b]) * cs[b]);
    if (G == 0) return;
    auto compare = [&](const Grads &g, const char *what, double thr) {
      if (g.times.size() != N || g.inner_points.rows() != std::max(0, N - 1)) { fail(what, p, "wrong output sizes"); return; }
      double worst = 0; int wi = -1;
      for (int i = 0; i < N; ++i) { double e = (double)(fabsl((LD)g.times(i) - gT[i]) * (LD)p.T[i] / G); if (e > worst) { worst = e; wi = i; } }
      for (int d = 0; d < D; ++d) { std::vector<double> lib = grads_data_vec<S>(g, N, d); for (int b = 0; b < nb; ++b) { double e = (double)(fabsl((LD)lib[b] - gX[d][b]) * cs[b] / G); if (e > worst) { worst = e; wi = 100 + d * 100 + b; } } }
      ++c.st.comparisons; c.st.obs(fmt("%s/%s", what, order_name(S)), worst);
      if (uniform_durations(p)) { c.st.obs(fmt("%s(uniform durations)/%s", what, order_name(S)), worst); if (worst > thr_egrad_uniform(S)) { fail(std::string(what) + "(uniform durations)", p, fmt("normalised error %.3g at output %d (tight threshold for equal durations)", worst, wi)); return; } }
      if (worst > thr) fail(what, p, fmt("normalised error %.3g at output %d (100+100*dim+b = data component b)", worst, wi));
    };
    Grads g = sp.getEnergyGrad();
    compare(g, "energy_grad_vs_jets", thr_egrad(S));
    for (int v = 0; v < 4; ++v) { Sp h = build_with_history<S, D>(p, v); ++c.st.comparisons; if (!grads_bits_equal(h.getEnergyGrad(), g) || !bits_equal(h.getEnergy(), sp.getEnergy()) || !mat_bits_equal(h.getEnergyPartialGradByCoeffs(), sp.getEnergyPartialGradByCoeffs())) { fail("energy-grad-after-history", p, "energy / energy gradients of a spline updated from a larger, fully queried problem differ from a fresh one"); return; } }
    { double e = (double)(fabsl((LD)sp.getEnergy() - Eref) / G); ++c.st.comparisons; c.st.obs(fmt("energy_vs_ref/%s", order_name(S)), e); if (e > thr_jac(S)) fail("energy-vs-ref", p, fmt("getEnergy %.17g vs reference %.17Lg", sp.getEnergy(), Eref)); }
    // individual getters / reference overload agree bitwise with the struct
    { Grads r; r.times = Eigen::VectorXd::Constant(2, 5.0); sp.getEnergyGrad(r);
      Eigen::VectorXd t = sp.getEnergyGradTimes(); Mat ip = sp.getEnergyGradInnerPoints(); auto bd = sp.getEnergyGradBoundary();
      Grads q; q.times = t; q.inner_points = ip; q.start = bd.start; q.end = bd.end;
      ++c.st.comparisons; if (!grads_bits_equal(g, r) || !grads_bits_equal(g, q)) fail("energy-grad-getters", p, "getEnergyGrad() / reference overload / individual getters disagree"); }
    // partials vs exact formulas on the published coefficients
    const auto &C = sp.getTrajectory().getCoefficients();
    Mat pc = sp.getEnergyPartialGradByCoeffs(); Eigen::VectorXd pt = sp.getEnergyPartialGradByTimes();
    { Mat pc2 = Mat::Constant(n, D, 1.0), pc3; Eigen::VectorXd pt2 = Eigen::VectorXd::Constant(N, 1.0), pt3; sp.getEnergyPartialGradByCoeffs(pc2); sp.getEnergyPartialGradByTimes(pt2); sp.getEnergyPartialGradByCoeffs(pc3); sp.getEnergyPartialGradByTimes(pt3); if (!mat_bits_equal(pc3, pc2) || !bits_equal(pt3.data(), pt2.data(), N)) fail("energy-partial-overloads", p, "reference overload depends on the previous contents of the output buffer"); ++c.st.comparisons; if (!mat_bits_equal(pc, pc2) || pt.size() != pt2.size() || !bits_equal(pt.data(), pt2.data(), pt.size())) fail("energy-partial-overloads", p, "value/reference overloads of the partial gradients disagree"); }
    if (pc.rows() != n || pt.size() != N) { fail("energy-partials-shape", p, "wrong sizes"); return; }
    for (int d = 0; d < D; ++d) for (int i = 0; i < N; ++i) {
      LD cc[16], gc[16], gt; piece_coeffs(C, M, i, d, cc); energy_piece_grad(cc, M, S, (LD)p.T[i], gc, gt);
      LD Gp = 0, tk = 1; std::vector<LD> w(M); for (int k = 0; k < M; ++k) { w[k] = 1 / tk; tk *= (LD)p.T[i]; }
      // magnitude: sum of |terms| of the exact expression (closed-form class: error relative to the terms)
      { int nn = M - S; LD q[16], pw[40]; pw[0] = 1; for (int a = 1; a < 2 * nn + 2; ++a) pw[a] = pw[a - 1] * (LD)p.T[i]; for (int a = 0; a < nn; ++a) q[a] = fallfac(a + S, S) * fabsl(cc[a + S]);
        for (int a = 0; a < nn; ++a) { LD sum = 0; for (int b = 0; b < nn; ++b) sum += q[b] * pw[a + b + 1] / (LD)(a + b + 1); Gp = std::max(Gp, 2 * fallfac(a + S, S) * sum * w[a + S]); } }
      for (int k = 0; k < M; ++k) {
        double e = Gp > 0 ? (double)(fabsl((LD)pc(i * M + k, d) - gc[k]) * w[k] / Gp) : (pc(i * M + k, d) != 0 ? 1.0 : 0.0);
        ++c.st.comparisons; c.st.obs(fmt("partial_coeffs/%s", order_name(S)), e);
        if (e > thr_closed()) { fail("energy-partial-coeffs", p, fmt("seg %d power %d dim %d: lib %.17g exact %.17Lg err %.3g", i, k, d, pc(i * M + k, d), gc[k], e)); break; }
      }
    }
    for (int i = 0; i < N; ++i) {
      LD want = 0, mag = 0;
      for (int d = 0; d < D; ++d) { LD cc[16]; piece_coeffs(C, M, i, d, cc); LD v = poly_deriv(cc, M, S, (LD)p.T[i]), a = poly_deriv_abs(cc, M, S, (LD)p.T[i]); want += v * v; mag += a * a; }
      double e = mag > 0 ? (double)(fabsl((LD)pt(i) - want) / mag) : (pt(i) != 0 ? 1.0 : 0.0);
      ++c.st.comparisons; c.st.obs(fmt("partial_times/%s", order_name(S)), e);
      if (e > thr_closed()) fail("energy-partial-times", p, fmt("seg %d: lib %.17g exact %.17Lg err %.3g", i, pt(i), want, e));
    }
    // propagating the partials reproduces the analytic gradient
    Grads pg = sp.propagateGrad(pc, pt);
    compare(pg, "propagated_partials_vs_jets", thr_egrad(S));
    // the same through the reference overloads used IN PLACE, the way an optimisation loop with one long-lived Gradients object does it: the
    // partial w.r.t. the durations is written into g.times, which is then both the upstream duration gradient and the output (C06-m9)
    { Grads gi; sp.getEnergyPartialGradByTimes(gi.times); sp.propagateGrad(pc, gi.times, gi); ++c.st.comparisons; if (!grads_bits_equal(gi, pg)) fail("propagated-partials-in-place", p, "propagateGrad(partials) with g.times as both input and output differs from the by-value result"); }
  }

  void run_case(int N, const std::vector<double> &T, double t0) {
    Prob p; p.N = N; p.T = T; p.t0 = t0;
    const int nb = J.nb;
    const bool th = c.args.thorough();
    if (VPROP == 5) {
      for (int b = 0; b < nb; ++b) { set_basis_data(p, S, b); check_adjoint(p); }
      set_generic_data(p, (uint64_t)c.args.seed * 1000 + N); check_adjoint(p);
      if (N <= 3 || th) check_adjoint_protocol(p);
    } else {
      for (int b = 0; b < nb; ++b) { set_basis_data(p, S, b); check_energy_grads(p); }
      // the energy is quadratic in the data: pairs of basis vectors (quick: neighbouring pairs; thorough: all pairs)
      for (int b = 0; b < nb; ++b) for (int b2 = b + 1; b2 < nb; ++b2) {
        if (!th && b2 != b + 1 && !(b == 0 && b2 == nb - 1)) continue;
        clear_data(p); for (int d = 0; d < D; ++d) { add_basis(p, S, (b + d) % nb, d, 1.0); add_basis(p, S, (b2 + d) % nb, d, (d & 1) ? -0.5 : 1.0); }
        check_energy_grads(p);
      }
      set_generic_data(p, (uint64_t)c.args.seed * 1000 + N); check_energy_grads(p);
    }
  }
};

template <int S> static void explore(Ctx &c, long &id) {
  const bool th = c.args.thorough();
  const int Nmax3 = th ? (VPROP == 5 ? 6 : 7) : 4;
  std::vector<double> sigmas = th ? std::vector<double>{0.125, 1.0, 8.0} : std::vector<double>{1.0};
  for (int N = 1; N <= (th ? 9 : 5); ++N) {
    int base = N <= Nmax3 ? 3 : 2;
    long nw = ipow(base, N);
    for (long w = 0; w < nw; ++w) for (size_t si = 0; si < sigmas.size(); ++si) {
      long my = id++;
      if (!c.mine(my)) continue;
      std::string unit = str(my);
      if (!c.begin(unit)) continue;
      const double *L = letters(S);
      std::vector<double> T(N);
      { long ww = w; for (int i = 0; i < N; ++i) { int l = ww % base; ww /= base; T[i] = (base == 3 ? L[l] : (l == 0 ? L[0] : L[2])) * sigmas[si]; } }
      // start-time alphabet; letter 3 = map-frame start 1.7e9 + 0.3 with the durations x 0.7 (start + durations inexact in double:
      // anything that re-derives a duration from absolute knots is off by ~1e-7; seeded changes C06-m6, C02-m5)
      const int tl = (int)((w + N) % 4); const double t0v = tl == 0 ? 0.0 : tl == 1 ? -2.5 : tl == 2 ? 1024.125 : 1.7e9 + 0.3;
      if (tl == 3) for (double &t : T) t *= 0.7;
      RefJac J = ref_jacobian(S, T);
      Runner<S> r(c, unit, J);
      r.run_case(N, T, t0v);
      ++c.st.evaluations;
      std::string key = fmt("S%d/N%d/b%d/w%ld/s%zu", S, N, base, w, si);
      if (!c.st.seen(key) && N >= 2) ++c.st.nontrivial;
      c.st.cls(fmt("%s/%s", order_name(S), N == 1 ? "N=1(no system)" : N == 2 ? "N=2(single block)" : N == 3 ? "N=3(first+last block)" : "N>=4(interior blocks)"));
      c.st.cls(D <= 3 ? "DIM<=3 path" : "DIM>3 path");
      if (my % 251 == 0) c.st.sample(VPROP == 5
        ? fmt("unit %ld: %s D=%d N=%d word=%s sigma=%g: propagateGrad on every unit upstream vector (%d coefficient entries + %d durations) for %d basis data + generic, vs exact Jacobian (jets through the dense solve)", my, order_name(S), D, N, word_str(N, w, base).c_str(), sigmas[si], 2 * S * N * D, N, nbasis(S, N))
        : fmt("unit %ld: %s D=%d N=%d word=%s sigma=%g: getEnergyGrad / partials / propagated partials vs jets for %d basis data, basis pairs and generic data", my, order_name(S), D, N, word_str(N, w, base).c_str(), sigmas[si], nbasis(S, N)));
    }
  }
}

// long splines: segment counts around a power of two (blocked / unrolled loops and dimension-specific kernels change behaviour exactly
// there); the reference Jacobian is taken in windows of 12 durations
template <int S> static void explore_long(Ctx &c, long &id) {
  const bool th = c.args.thorough();
  for (int N : {31, 32, 33, 64}) for (int pat = 0; pat < 2; ++pat) {
    long my = id++; if (N == 64 && !th) continue; if (!c.mine(my)) continue; std::string unit = str(my); if (!c.begin(unit)) continue;
    const double *L = letters(S); std::vector<double> T(N); for (int i = 0; i < N; ++i) T[i] = pat == 0 ? L[1] : ((i & 1) ? L[1] : L[1] * 0.5);
    RefJac J = ref_jacobian(S, T); Runner<S> r(c, unit, J); r.run_case(N, T, pat ? -2.5 : 1024.125);
    ++c.st.evaluations; if (!c.st.seen(fmt("long/S%d/N%d/%d", S, N, pat))) ++c.st.nontrivial; c.st.cls(fmt("%s/long (N around 32, 64)", order_name(S)));
    if (N == 32) c.st.sample(fmt("unit %ld: %s D=%d N=%d %s durations: the same comparisons against the exact Jacobian (jets in windows of 12 durations)", my, order_name(S), D, N, pat ? "alternating" : "uniform"));
  }
}

int main(int argc, char **argv) {
  Args a = parse_args(argc, argv);
  return supervise(a, [&](Ctx &c) {
    long id = 0;
    explore<2>(c, id); explore<3>(c, id); explore<4>(c, id);
    explore_long<2>(c, id); explore_long<3>(c, id); explore_long<4>(c, id);
    c.st.notes["dim"] = str(D);
  });
}
