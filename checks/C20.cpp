// C20 -- sampling, arc length, factory helpers (E1; R3).
#include "splinekit.hpp"
using namespace vf;

// ---------- Gauss-Legendre nodes (long double, Newton iteration) ----------
struct GL { int n; std::vector<LD> x, w; GL(int n_) : n(n_), x(n_), w(n_) {
  for (int i = 0; i < n; ++i) { LD z = cosl(3.14159265358979323846264338327950288L * (i + 0.75L) / (n + 0.5L)), pp = 0;
    for (int it = 0; it < 100; ++it) { LD p1 = 1, p2 = 0; for (int j = 1; j <= n; ++j) { LD p3 = p2; p2 = p1; p1 = ((2 * j - 1) * z * p2 - (j - 1) * p3) / j; } pp = n * (z * p1 - p2) / (z * z - 1); LD z1 = z; z = z1 - p1 / pp; if (fabsl(z - z1) < 1e-19L) break; }
    x[i] = z; w[i] = 2 / ((1 - z * z) * pp * pp); } } };

template <class PP> static LD piece_norm_deriv(const PP &pp, int seg, LD lt, int k) {
  const int D = PP::VectorType::RowsAtCompileTime, m = pp.getNumCoeffs(); LD s = 0;
  for (int d = 0; d < D; ++d) { LD c[16]; for (int j = 0; j < m; ++j) c[j] = pp.getCoefficients()(seg * m + j, d); LD v = poly_deriv(c, m, k, lt); s += v * v; }
  return sqrtl(s);
}
// integral over [a,b] of ||k-th derivative||, splitting at breakpoints and at `cuts`
template <class PP> static LD integrate_norm(const PP &pp, double a, double b, int k, const GL &gl, int sub = 8) {
  const std::vector<double> &bp = pp.getBreakpoints(); int n = pp.getNumSegments(); LD tot = 0;
  for (int s = 0; s < n; ++s) {
    LD lo = std::max((LD)a, s == 0 ? (LD)-1e300 : (LD)bp[s]), hi = std::min((LD)b, s == n - 1 ? (LD)1e300 : (LD)bp[s + 1]);
    if (!(hi > lo)) continue;
    for (int q = 0; q < sub; ++q) { LD l = lo + (hi - lo) * q / sub, h = lo + (hi - lo) * (q + 1) / sub, mid = 0.5L * (l + h), half = 0.5L * (h - l);
      for (int i = 0; i < gl.n; ++i) tot += gl.w[i] * half * piece_norm_deriv(pp, s, mid + half * gl.x[i] - (LD)bp[s], k); }
  }
  return tot;
}

// ---------- (1) generateTimeSequence contract ----------
static void check_sequence(Ctx &c, const std::string &unit, const PPolyND<1> &pp, double start, double end, double dt, const char *what) {
  std::vector<double> seq = pp.generateTimeSequence(start, end, dt);
  ++c.st.comparisons; if (!c.st.seen(fmt("%a/%a/%a", start, end, dt)) && end > start) ++c.st.nontrivial;
  auto fail = [&](const std::string &m) { c.st.violate(unit, fmt("generateTimeSequence(start=%.17g, end=%.17g, dt=%.17g) [%s]: %s (size %zu)", start, end, dt, what, m.c_str(), seq.size()), {{"what", "time-sequence"}}); };
  if (seq.empty()) { fail("empty sequence"); return; }
  if (!bits_equal(seq[0], start)) { fail("first sample is not the requested start"); return; }
  const size_t n = seq.size();
  // regular part: sample i = start + i*dt
  LD shortfall_last_regular = 0; size_t nreg = n;
  // the last element may be the appended end: decide by comparing with start + (n-1)*dt
  { double reg = start + (double)(n - 1) * dt; if (n >= 2 && !bits_equal(seq[n - 1], reg)) nreg = n - 1; }
  for (size_t i = 0; i < nreg; ++i) { double want = start + (double)i * dt; double ul = std::nextafter(std::fabs(want), INFINITY) - std::fabs(want); if (std::fabs(seq[i] - want) > 2 * ul) { fail(fmt("sample %zu = %.17g is not start + i*dt = %.17g", i, seq[i], want)); return; } }
  for (size_t i = 1; i < n; ++i) if (!(seq[i] > seq[i - 1])) { fail(fmt("not strictly increasing at %zu: %.17g then %.17g", i, seq[i - 1], seq[i])); return; }
  for (size_t i = 0; i < n; ++i) if (seq[i] > end + 1e-6) { fail(fmt("sample %zu = %.17g lies beyond the end by more than 1e-6", i, seq[i])); return; }
  if (std::fabs(seq[n - 1] - end) > 1e-6) { fail(fmt("last sample %.17g is not within 1e-6 of the end", seq[n - 1])); return; }
  // appended iff the last regular step fell short by more than 1e-6 (borderline band excluded)
  shortfall_last_regular = (LD)end - (LD)seq[nreg - 1];
  bool appended = nreg < n;
  if (appended && !bits_equal(seq[n - 1], end)) { fail("appended sample is not the requested end"); return; }
  if (fabsl(shortfall_last_regular) > 1e-6L * (1 + 1e-6L) && !appended) { fail(fmt("last regular sample falls short of the end by %.3Lg > 1e-6 but the end was not appended", shortfall_last_regular)); return; }
  if (fabsl(shortfall_last_regular) < 1e-6L * (1 - 1e-6L) && appended) { fail(fmt("end appended although the last regular sample is within 1e-6 (%.3Lg)", shortfall_last_regular)); return; }
  // the appended final step is not longer than a regular step (no regular sample is missing)
  if (appended && shortfall_last_regular > (LD)dt * (1 + 1e-9L) + 4e-16L * fabsl((LD)end)) { fail(fmt("the final step %.17Lg is longer than dt: a regular sample before the end is missing", shortfall_last_regular)); return; }
  c.st.cls(appended ? "end appended" : "ends on a regular sample");
}

static void explore_sequences(Ctx &c, long &id) {
  const bool th = c.args.thorough();
  static const double starts[6] = {0.0, 0.3, -1.5, 100.0, 5000.0, -7000.0};
  static const double lengths[6] = {0.0, 9.5367431640625e-07, 0.5, 1.0, 2.5, 10.0};
  PPolyND<1> pp = PPolyND<1>::zero({0.0, 1.0}, 1);
  const int KMAX = th ? 16384 : 1024;
  for (int si = 0; si < 6; ++si) for (int li = 0; li < 6; ++li) for (int blk = 0; blk < 16; ++blk) {
    long my = id++;
    if (!c.mine(my)) continue;
    std::string unit = str(my);
    if (!c.begin(unit)) continue;
    double start = starts[si], len = lengths[li], end = start + len;
    long ncase = 0;
    if (len > 0) for (int k = 1 + blk; k <= KMAX; k += 16) {
      double base = len / k;
      const double fac[5] = {1.0, 1.0 + 9.094947017729282e-13, 1.0 - 9.094947017729282e-13, 1.0 + 1e-7, 1.0 - 1e-7};
      for (int f = 0; f < 5; ++f) { check_sequence(c, unit, pp, start, end, base * fac[f], f == 0 ? "dt = length/k" : "dt nearly divides the interval"); ++ncase; }
      // k full steps that fall short of the end by a chosen remainder on either side of 1e-6 (whatever the magnitude of the end time)
      if (k <= 512) { const double rem[5] = {5e-7, 2e-6, 2e-5, 2e-4, 2e-3}; for (int r = 0; r < 5; ++r) if (len > 4 * rem[r]) { check_sequence(c, unit, pp, start, end, (len - rem[r]) / k, "k steps fall short of the end by a chosen remainder"); ++ncase; } }
    }
    if (blk == 0) {
      const double fixed[5] = {1.5 * len, 1e-3, 0.01, 0.1, 0.3};
      for (int f = 0; f < 5; ++f) if (fixed[f] > 0) { check_sequence(c, unit, pp, start, end, fixed[f], "fixed dt"); ++ncase; }
      // overload generateTimeSequence(dt) uses the trajectory's own start/end
      if (len > 0) { PPolyND<1> q = PPolyND<1>::zero({start, end}, 1); std::vector<double> a = q.generateTimeSequence(0.01), b = q.generateTimeSequence(start, end, 0.01); ++c.st.comparisons; if (a != b) c.st.violate(unit, "generateTimeSequence(dt) differs from generateTimeSequence(start,end,dt)"); }
    }
    ++c.st.evaluations; c.st.seen(fmt("seq/%d/%d/%d", si, li, blk));
    if (my % 29 == 0) c.st.sample(fmt("unit %ld: generateTimeSequence start=%g length=%g: dt = length/k for k = %d,%d,..<=%d and dt*(1+-2^-40), dt*(1+-1e-7): %ld sequences checked (first=start, i-th = start+i*dt, strictly increasing, none beyond end+1e-6, ends within 1e-6, end appended iff short by >1e-6)", my, start, len, 1 + blk, 17 + blk, KMAX, ncase));
  }
}

// ---------- (2) batch evaluation and arc length on spline trajectories ----------
template <int S, int D> static void check_length(Ctx &c, const std::string &unit, const Problem<D> &p, const GL &gl) {
  Spl<S, D> sp = build<S, D>(p); const auto &tr = sp.getTrajectory();
  auto fail = [&](const std::string &m) { c.st.violate(unit, fmt("%s D=%d: %s | %s", order_name(S), D, m.c_str(), describe(p).c_str()), {{"what", "arc-length"}}); };
  const double t0 = tr.getStartTime(), t1 = tr.getEndTime();
  struct R { double a, b; }; std::vector<R> ranges = {{t0, t1}, {t0 + 0.3 * (t1 - t0), t0 + 0.85 * (t1 - t0)}, {t0 + 0.5, t0 + 0.5}};
  // steps at and below one microsecond on short windows ("every positive step"): the 1e-6 of the end rule is a tolerance on the LAST sample,
  // not a lower bound on the step (seeded change C20-m7: intervals narrower than 1e-6 skipped in the length sum)
  for (int wi = 0; wi < 2; ++wi) { const double a0 = wi == 0 ? t0 : t0 + 0.4375 * (t1 - t0), len = std::min(0.002, 0.25 * (t1 - t0));
    for (double dtt : {5e-7, 1e-6, 9.5367431640625e-07, 2e-6}) { std::vector<double> sq = tr.generateTimeSequence(a0, a0 + len, dtt); ++c.st.comparisons;
      if (sq.size() < 2 || (double)sq.size() < 0.5 * len / dtt) { fail(fmt("generateTimeSequence(%.17g, %.17g, %g) has %zu samples", a0, a0 + len, dtt, sq.size())); return; }
      LD rie = 0, sabs = 0; for (size_t i = 0; i + 1 < sq.size(); ++i) { LD term = (LD)tr.evaluate(sq[i], 1).norm() * ((LD)sq[i + 1] - (LD)sq[i]); rie += term; sabs += fabsl(term); }
      const double rep = tr.getTrajectoryLength(a0, a0 + len, dtt);
      if (fabsl((LD)rep - rie) > 1e-11L * std::max(sabs, (LD)1e-300)) { fail(fmt("getTrajectoryLength(%.17g,%.17g,%g) = %.17g is not the left Riemann sum of speed %.17Lg over its %zu samples", a0, a0 + len, dtt, rep, rie, sq.size())); return; } } }
  for (const R &r : ranges) for (double dt : {0.5, 0.1, 0.01, 0.003}) {
    std::vector<double> seq = tr.generateTimeSequence(r.a, r.b, dt);
    // batch == pointwise
    for (int k = 0; k <= 2 * S + 1; ++k) { auto bt = tr.evaluate(seq, k); ++c.st.comparisons; bool ok = bt.size() == seq.size(); for (size_t i = 0; ok && i < seq.size(); ++i) { auto v = tr.evaluate(seq[i], k); ok = bits_equal(v.data(), bt[i].data(), D); } if (!ok) { fail(fmt("batch evaluate(seq,%d) differs from pointwise", k)); return; } }
    { auto bt = tr.evaluate(seq, Deriv::Vel); auto b2 = tr.evaluate(seq, 1); bool ok = bt.size() == b2.size(); for (size_t i = 0; ok && i < bt.size(); ++i) ok = bits_equal(bt[i].data(), b2[i].data(), D); ++c.st.comparisons; if (!ok) { fail("batch evaluate(seq, Deriv::Vel) differs from evaluate(seq,1)"); return; } }
    double rep = tr.getTrajectoryLength(r.a, r.b, dt);
    LD riemann = 0; for (size_t i = 0; i + 1 < seq.size(); ++i) riemann += (LD)tr.evaluate(seq[i], 1).norm() * ((LD)seq[i + 1] - (LD)seq[i]);
    LD truth = integrate_norm(tr, r.a, r.b, 1, gl), acc = integrate_norm(tr, r.a, r.b, 2, gl);
    ++c.st.comparisons;
    double e1 = (double)(fabsl((LD)rep - riemann) / std::max((LD)1e-300, fabsl(riemann)));
    c.st.obs("length_vs_riemann_rel", riemann > 0 ? e1 : 0.0);
    if (riemann > 0 ? e1 > 1e-12 : rep != 0.0) { fail(fmt("getTrajectoryLength(%.6g,%.6g,%.4g) = %.17g is not the left Riemann sum of speed %.17Lg", r.a, r.b, dt, rep, riemann)); return; }
    LD bound = (LD)dt * acc + 1e-9L * (truth + 1e-12L) + 1e-12L;
    c.st.obs("length_error_over_bound", (double)(fabsl((LD)rep - truth) / bound));
    if (fabsl((LD)rep - truth) > bound) { fail(fmt("|reported %.12g - true arc length %.12Lg| exceeds dt*int|a| = %.6Lg", rep, truth, bound)); return; }
    if (r.a == t0 && r.b == t1) { double d1 = tr.getTrajectoryLength(dt); ++c.st.comparisons; if (!bits_equal(d1, rep)) { fail("getTrajectoryLength(dt) differs from getTrajectoryLength(start,end,dt)"); return; } if (dt == 0.01) { double d0 = tr.getTrajectoryLength(); if (!bits_equal(d0, rep)) { fail("getTrajectoryLength() default step is not 0.01"); return; } } }
  }
}
// the length of a RE-USED object (queried, updated, queried again with the same step) is that of its latest data
template <int S, int D> static void check_length_reuse(Ctx &c, const std::string &unit, const Problem<D> &p) {
  Spl<S, D> sp = build<S, D>(p);
  Problem<D> q = p; for (int i = 0; i <= p.N; ++i) q.P.row(i) = p.P.row(p.N - i) * 1.5; q.t0 = p.t0;
  for (double dt : {0.1, 0.01}) {
    (void)sp.getTrajectory().getTrajectoryLength(dt); (void)sp.getTrajectory().getTrajectoryLength();
    sp.update(q.T, q.P, q.t0, q.bc);
    Spl<S, D> fresh = build<S, D>(q);
    double a = sp.getTrajectory().getTrajectoryLength(dt), b = fresh.getTrajectory().getTrajectoryLength(dt), a0 = sp.getTrajectory().getTrajectoryLength(), b0 = fresh.getTrajectory().getTrajectoryLength();
    double a3 = sp.getTrajectory().getTrajectoryLength(sp.getStartTime(), sp.getEndTime(), dt);
    ++c.st.comparisons;
    if (!bits_equal(a, b) || !bits_equal(a0, b0) || !bits_equal(a3, b)) { c.st.violate(unit, fmt("%s D=%d: getTrajectoryLength(%g) of a re-used spline (queried, updated, queried) = %.17g / default step %.17g / 3-argument %.17g, of a fresh spline with the same data %.17g / %.17g | %s", order_name(S), D, dt, a, a0, a3, b, b0, describe(q).c_str()), {{"what", "arc-length"}}); return; }
    sp.update(p.T, p.P, p.t0, p.bc);
  }
  // PPolyND directly: a zero() factory object queried, then updated to a polyline
  { std::vector<double> bp = {0.0, 1.0, 2.0, 4.0}; PPolyND<D> z = PPolyND<D>::zero(bp, 2); (void)z.getTrajectoryLength(0.25); typename PPolyND<D>::MatrixType C2 = PPolyND<D>::MatrixType::Zero(6, D); for (int s2 = 0; s2 < 3; ++s2) C2(2 * s2 + 1, 0) = 1.0 + s2;
    z.update(bp, C2, 2); PPolyND<D> f2(bp, C2, 2); ++c.st.comparisons; if (!bits_equal(z.getTrajectoryLength(0.25), f2.getTrajectoryLength(0.25))) c.st.violate(unit, fmt("PPolyND<%d>: getTrajectoryLength of a zero() object updated to a polyline = %.17g, fresh object %.17g", D, z.getTrajectoryLength(0.25), f2.getTrajectoryLength(0.25)), {{"what", "arc-length"}}); }
}
template <int S, int D> static void explore_lengths(Ctx &c, long &id, const GL &gl) {
  const bool th = c.args.thorough();
  for (int N : {1, 2, 3, 5}) { long nw = ipow(3, N); long stride = th ? 1 : std::max(1L, nw / 9);
    for (long w = 0; w < nw; w += stride) {
      long my = id++;
      if (!c.mine(my)) continue;
      std::string unit = str(my);
      if (!c.begin(unit)) continue;
      Problem<D> p; p.N = N; p.T = word_durations(S, N, w); p.t0 = (w % 2) ? -1.5 : 0.25; set_generic_data(p, (uint64_t)c.args.seed * 100 + w);
      check_length<S, D>(c, unit, p, gl);
      check_length_reuse<S, D>(c, unit, p);
      ++c.st.evaluations; std::string key = fmt("len/S%d/D%d/N%d/w%ld", S, D, N, w); if (!c.st.seen(key)) ++c.st.nontrivial;
      c.st.cls(fmt("arc length/%s", order_name(S)));
      if (my % 41 == 0) c.st.sample(fmt("unit %ld: %s D=%d N=%d word=%s: batch vs pointwise evaluation, getTrajectoryLength (3 overloads, full range / sub-range / zero length, dt in {0.5,0.1,0.01,0.003}) vs left Riemann sum and vs Gauss-Legendre arc length within dt*int|a|", my, order_name(S), D, N, word_str(N, w).c_str()));
    } }
}

// ---------- (2b) trajectories with velocity jumps: the length is the left Riemann sum with RIGHT-continuous speed ----------
template <int DIM> static void explore_polylines(Ctx &c, long &id) {
  typedef PPolyND<DIM> PP; typedef typename PP::MatrixType Mat;
  const std::vector<std::vector<double>> bps = {{0.0, 1.0, 2.0, 3.0}, {-2.0, -1.5, 0.0, 0.25, 2.0}, {100.0, 100.5, 101.0}};
  for (size_t bi = 0; bi < bps.size(); ++bi) for (int nc = 1; nc <= 3; ++nc) {
    long my = id++; if (!c.mine(my)) continue; std::string unit = str(my); if (!c.begin(unit)) continue;
    const auto &b = bps[bi]; const int n = (int)b.size() - 1; Mat C(n * nc, DIM);
    for (int s = 0; s < n; ++s) for (int k = 0; k < nc; ++k) for (int d = 0; d < DIM; ++d) C(s * nc + k, d) = (double)(((s * 5 + k * 3 + d) % 7) - 3) * (k == 1 ? (s + 1) : 1);   // speeds jump at every breakpoint
    PP pp(b, C, nc);
    struct R { double a, bb; }; std::vector<R> ranges = {{b.front(), b.back()}, {b[1], b.back()}, {b.front(), b[n - 1]}, {b[1] + 0.125, b[n - 1] + 0.125}};
    for (const R &r : ranges) for (double dt : {1.0, 0.5, 0.25, 0.125, 0.3}) {
      std::vector<double> seq = pp.generateTimeSequence(r.a, r.bb, dt); LD riemann = 0;
      for (size_t i = 0; i + 1 < seq.size(); ++i) riemann += (LD)pp.evaluate(seq[i], 1).norm() * ((LD)seq[i + 1] - (LD)seq[i]);
      double rep = pp.getTrajectoryLength(r.a, r.bb, dt); ++c.st.comparisons;
      if (fabsl((LD)rep - riemann) > 1e-12L * (fabsl(riemann) + 1e-300L)) { c.st.violate(unit, fmt("PPolyND<%d> with velocity jumps (breakpoints #%zu, %d coefficients): getTrajectoryLength(%.6g,%.6g,%.4g) = %.17g is not the left Riemann sum of speed %.17Lg", DIM, bi, nc, r.a, r.bb, dt, rep, riemann), {{"what", "arc-length"}}); break; }
      auto bt = pp.evaluate(seq, 1); for (size_t i = 0; i < seq.size(); ++i) { auto v = pp.evaluate(seq[i], 1); if (!bits_equal(v.data(), bt[i].data(), DIM)) { c.st.violate(unit, "batch evaluate differs from pointwise on a discontinuous trajectory"); break; } }
    }
    ++c.st.evaluations; if (!c.st.seen(fmt("poly/%d/%zu/%d", DIM, bi, nc)) && nc >= 2) ++c.st.nontrivial; c.st.cls("arc length/polyline with velocity jumps");
    if (nc == 2 && bi == 0) c.st.sample(fmt("unit %s: PPolyND<%d> polyline with speed jumps at breakpoints {0,1,2,3}: getTrajectoryLength over 4 ranges x dt in {1,0.5,0.25,0.125,0.3} (samples land exactly on breakpoints) vs left Riemann sum with right-continuous speed", unit.c_str(), DIM));
  }
}

// ---------- (3) factories ----------
template <int DIM, int ORDER> static void explore_factories(Ctx &c, long &id) {
  typedef PPolyND<DIM, ORDER> PP;
  std::vector<std::vector<double>> bps = {{-3.625, -3.125}, {-3.625, -3.125, -1.875, -1.75}, {0.0, 0.5, 0.5, 2.0}, {1.0}, {}};
  { std::vector<double> b; double t = -2.0; for (int i = 0; i <= 40; ++i) { b.push_back(t); t += (i % 3 == 0) ? 0.125 : 0.75; } bps.push_back(b); }
  const int ncmax = ORDER == Eigen::Dynamic ? 12 : ORDER;
  for (size_t bi = 0; bi < bps.size(); ++bi) for (int nc = 1; nc <= ncmax; ++nc) {
    long my = id++;
    if (!c.mine(my)) continue;
    std::string unit = str(my);
    if (!c.begin(unit)) continue;
    const auto &b = bps[bi]; bool valid = b.size() >= 2;
    typename PP::VectorType cv; for (int d = 0; d < DIM; ++d) cv(d) = 1.5 - d;
    PP z = PP::zero(b, nc), k = PP::constant(b, cv);
    auto fail = [&](const std::string &m) { c.st.violate(unit, fmt("factory DIM=%d ORDER=%d breakpoints#%zu nc=%d: %s", DIM, ORDER, bi, nc, m.c_str()), {{"what", "factory"}}); };
    ++c.st.comparisons;
    if (!valid) { if (z.isInitialized() || k.isInitialized() || z.getNumSegments() != 0) fail("fewer than two breakpoints must give an uninitialised object"); }
    else {
      if (!z.isInitialized() || z.getBreakpoints() != b || z.getNumCoeffs() != nc || z.getNumSegments() != (int)b.size() - 1) fail("zero(): not initialised on the given breakpoints / coefficient count");
      if (!k.isInitialized() || k.getBreakpoints() != b || k.getNumCoeffs() != 1) fail("constant(): not initialised on the given breakpoints");
      std::vector<double> ts = {b.front() - 10.0, b.back() + 10.0}; for (size_t i = 0; i < b.size(); ++i) { ts.push_back(b[i]); ts.push_back(std::nextafter(b[i], -INFINITY)); if (i + 1 < b.size()) ts.push_back(0.5 * (b[i] + b[i + 1])); }
      for (double t : ts) for (int dk = 0; dk <= nc + 1; ++dk) { auto vz = z.evaluate(t, dk), vk = k.evaluate(t, dk); ++c.st.comparisons;
        for (int d = 0; d < DIM; ++d) { if (vz(d) != 0.0) { fail(fmt("zero().evaluate(%.6g,%d) != 0", t, dk)); goto done; } if (vk(d) != (dk == 0 ? cv(d) : 0.0)) { fail(fmt("constant().evaluate(%.6g,%d) = %.17g", t, dk, vk(d))); goto done; } } }
    }
  done:
    ++c.st.evaluations; std::string key = fmt("fac/%d/%d/%zu/%d", DIM, ORDER, bi, nc); if (!c.st.seen(key) && valid) ++c.st.nontrivial; c.st.cls("factories");
  }
  // large coefficient counts (Dynamic only): every count up to 200, every derivative order. Known finding F3 (known_findings.txt): from 172
  // coefficients on, the falling factorial (nc-1)!/(nc-1-k)! of the derivative-factor table overflows to +inf and inf * 0 is NaN; a failure at
  // an order where that factor does NOT overflow is a different violation and is reported as such (attribute ffover=0).
  if (ORDER == Eigen::Dynamic && DIM == 1) for (int nc = 13; nc <= 200; ++nc) {
    long my = id++;
    if (!c.mine(my)) continue;
    std::string unit = str(my);
    if (!c.begin(unit)) continue;
    const auto &b = bps[1]; PP z = PP::zero(b, nc);
    int bad_over = -1, bad_other = -1; double bt = 0;
    if (!z.isInitialized() || z.getNumCoeffs() != nc || z.getBreakpoints() != b) bad_other = 0;
    else for (int dk = 0; dk <= nc + 1; ++dk) { long double ff = 1; for (int q = 0; q < dk && q < nc - 1; ++q) ff *= (long double)(nc - 1 - q); const bool over = dk <= nc - 1 && ff > (long double)1.7976931348623157e308L * (1 - 1e-9L);
      for (double t : {b.front() - 10.0, b[0], 0.5 * (b[0] + b[1]), b[2], b.back(), b.back() + 10.0}) { auto vz = z.evaluate(t, dk); ++c.st.comparisons; if (!(vz(0) == 0.0)) { if (over) { if (bad_over < 0) bad_over = dk; } else if (bad_other < 0) { bad_other = dk; bt = t; } } } }
    if (bad_over >= 0) c.st.violate(unit, fmt("factory zero(breakpoints, %d): evaluate(t, %d) is not 0 (NaN): the falling factorial %d!/%d! of the derivative-factor table overflows", nc, bad_over, nc - 1, nc - 1 - bad_over), {{"what", "factory-zero-large"}, {"nc", fmt("%d", nc)}, {"ffover", "1"}});
    if (bad_other >= 0) c.st.violate(unit, fmt("factory zero(breakpoints, %d): evaluate(%.6g, %d) is not 0 although no derivative factor overflows (or the object is not initialised as requested)", nc, bt, bad_other), {{"what", "factory-zero-large"}, {"nc", fmt("%d", nc)}, {"ffover", "0"}});
    ++c.st.evaluations; if (!c.st.seen(fmt("facbig/%d", nc))) ++c.st.nontrivial; c.st.cls("factories: 13..200 coefficients");
  }
  // zero() with the default coefficient count
  { long my = id++; if (c.mine(my) && c.begin(str(my))) { PP z = PP::zero({0.0, 1.0, 3.0}); ++c.st.evaluations; ++c.st.comparisons; c.st.seen(fmt("facdef/%d/%d", DIM, ORDER)); if (!z.isInitialized() || z.getNumCoeffs() != 1 || z.evaluate(0.5, 0).norm() != 0.0) c.st.violate(str(my), "zero(bp) with default coefficient count"); } }
}

int main(int argc, char **argv) {
  Args a = parse_args(argc, argv);
  return supervise(a, [&](Ctx &c) {
    long id = 0; GL gl(16);
    explore_sequences(c, id);
    explore_lengths<2, 1>(c, id, gl); explore_lengths<3, 1>(c, id, gl); explore_lengths<4, 1>(c, id, gl);
    explore_lengths<2, 3>(c, id, gl); explore_lengths<3, 3>(c, id, gl); explore_lengths<4, 3>(c, id, gl);
    explore_polylines<1>(c, id); explore_polylines<2>(c, id);
    explore_factories<1, Eigen::Dynamic>(c, id); explore_factories<3, Eigen::Dynamic>(c, id); explore_factories<1, 8>(c, id); explore_factories<3, 4>(c, id);
  });
}
