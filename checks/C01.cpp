// C01 -- interpolation, boundary states, time bookkeeping (E1 lattice explorer; R3; argument L).
// One TU per spatial dimension: -DVDIM=<d>.
#include "splinekit.hpp"
#ifndef VDIM
#define VDIM 2
#endif
using namespace vf;
static const int D = VDIM;
typedef Problem<D> Prob;

// closed-form class (DESIGN s7): >= 1e3 x worst value observed on the thorough lattice (3.5e-16 / 8.4e-15 / 5.7e-13)
static double thr_of(int S) { return S == 2 ? 1e-12 : S == 3 ? 1e-11 : 1e-9; }

static double ulp_of(double x) { x = std::fabs(x); return std::nextafter(x, INFINITY) - x; }

template <int S> struct Runner {
  typedef Spl<S, D> Sp;
  static const int M = 2 * S;
  const double THR = thr_of(S);
  Ctx &c; const std::string &unit;
  Sp reused; bool toggle = false; int which = 0;   // a long-lived object updated with every problem of this unit (route 5)
  Runner(Ctx &c_, const std::string &u) : c(c_), unit(u) {}

  void fail(const std::string &what, const Prob &p, const std::string &detail) {
    c.st.violate(unit, fmt("%s D=%d: %s: %s | %s", order_name(S), D, what.c_str(), detail.c_str(), describe(p).c_str()),
                 {{"order", order_name(S)}, {"what", what}});
  }

  // all checks for one fully specified problem; `exact` = time points representable exactly
  void check_problem(const Prob &p, bool exact) {
    const int N = p.N;
    std::vector<double> tp = p.timepoints();
    // durations implied by the time points: what the time-point overload must use
    std::vector<double> Tq(N); for (int i = 0; i < N; ++i) Tq[i] = tp[i + 1] - tp[i];
    Prob q = p; q.T = Tq;
    if (exact) for (int i = 0; i < N; ++i) if (Tq[i] != p.T[i]) { fail("harness", p, "dyadic lattice not exact"); return; }

    Sp A(q.T, q.P, q.t0, q.bc);
    Sp B(tp, q.P, q.bc);
    Sp Cc; Cc.update(q.T, q.P, q.t0, q.bc);
    Sp Dd; Dd.update(tp, q.P, q.bc);
    const Sp *routes[4] = {&A, &B, &Cc, &Dd};
    static const char *rname[4] = {"ctor(durations)", "ctor(timepoints)", "update(durations)", "update(timepoints)"};
    for (int r = 1; r < 4; ++r) {
      ++c.st.comparisons;
      if (!mat_bits_equal(routes[0]->getTrajectory().getCoefficients(), routes[r]->getTrajectory().getCoefficients()))
        fail("route-coeffs", p, std::string(rname[r]) + " differs from ctor(durations)");
      if (routes[0]->getTrajectory().getBreakpoints() != routes[r]->getTrajectory().getBreakpoints())
        fail("route-breakpoints", p, std::string(rname[r]) + " differs from ctor(durations)");
    }
    // route 5: update() on a long-lived object that holds the previous problem and whose trajectory has been evaluated
    {
      if (reused.isInitialized()) for (int k = 0; k < M; ++k) (void)reused.getTrajectory().evaluate(reused.getStartTime(), k);
      // first the same problem at another start time (same N: nothing is resized), evaluated, then the real one
      { const double sh = toggle ? 3.25 : -1024.5; reused.update(q.T, q.P, q.t0 + sh, q.bc); ++c.st.comparisons;
        // the intermediate state is checked too (otherwise a stale time grid can be right again by luck after the second update)
        bool oks = reused.getStartTime() == q.t0 + sh && reused.getTrajectory().getStartTime() == q.t0 + sh && (int)reused.getCumulativeTimes().size() == N + 1 && reused.getTrajectory().getBreakpoints() == reused.getCumulativeTimes();
        if (oks) { double t = q.t0 + sh; for (int i = 0; i <= N && oks; ++i) { oks = reused.getCumulativeTimes()[i] == t; if (i < N) t += q.T[i]; } }
        if (!oks) fail("route-reused-object", p, fmt("update() of a used object to start time %.17g: knot times are not start + durations", q.t0 + sh));
        (void)reused.getTrajectory().evaluate(reused.getStartTime(), 1); }
      if (toggle) reused.update(q.T, q.P, q.t0, q.bc); else reused.update(tp, q.P, q.bc);
      toggle = !toggle;
      // the FIRST access after the update goes through each of the four trajectory accessors in turn (rotating with the problem), before any
      // other accessor is called: every one of them must already show the new knots and polynomials (seeded change C01-m8: lazy re-publication
      // with one accessor left out)
      { which = (which + 1) % 4; ++c.st.comparisons; bool okf;
        if (which == 0) { auto cp = reused.getPPolyCopy(); okf = cp.getBreakpoints() == A.getTrajectory().getBreakpoints() && mat_bits_equal(cp.getCoefficients(), A.getTrajectory().getCoefficients()); }
        else if (which == 1) { auto cp = reused.getTrajectoryCopy(); okf = cp.getBreakpoints() == A.getTrajectory().getBreakpoints() && mat_bits_equal(cp.getCoefficients(), A.getTrajectory().getCoefficients()); }
        else if (which == 2) { const auto &r = reused.getPPoly(); okf = r.getBreakpoints() == A.getTrajectory().getBreakpoints() && mat_bits_equal(r.getCoefficients(), A.getTrajectory().getCoefficients()); }
        else { const auto &r = reused.getTrajectory(); okf = r.getBreakpoints() == A.getTrajectory().getBreakpoints() && mat_bits_equal(r.getCoefficients(), A.getTrajectory().getCoefficients()); }
        if (!okf) fail("route-reused-object", p, fmt("the first trajectory access after update(), through %s, does not show the new knots / polynomials", which == 0 ? "getPPolyCopy()" : which == 1 ? "getTrajectoryCopy()" : which == 2 ? "getPPoly()" : "getTrajectory()")); }
      ++c.st.comparisons;
      bool ok = mat_bits_equal(reused.getTrajectory().getCoefficients(), A.getTrajectory().getCoefficients()) && reused.getTrajectory().getBreakpoints() == A.getTrajectory().getBreakpoints() && reused.getCumulativeTimes() == A.getCumulativeTimes() && reused.getStartTime() == A.getStartTime() && reused.getEndTime() == A.getEndTime() && reused.getDuration() == A.getDuration();
      const std::vector<double> &cm = A.getCumulativeTimes();
      for (int i = 0; ok && i <= N; ++i) for (int k = 0; k < S; ++k) { auto a = A.getTrajectory().evaluate(cm[i], k), b = reused.getTrajectory().evaluate(cm[i], k); ok = ok && bits_equal(a.data(), b.data(), D); }
      if (!ok) fail("route-reused-object", p, "update() on an object that held another problem (and was evaluated) differs from a fresh construction");
    }
    // route 6: an object that first held a LARGER problem (two more segments, other last duration), was fully queried, and was then updated to
    //          this one (seeded change C01-m12: per-segment table only ever grown, its last entry read with back())
    for (int v = 0; v < 2; ++v) { Sp h = build_with_history<S, D>(q, v); ++c.st.comparisons;
      bool okh = mat_bits_equal(h.getTrajectory().getCoefficients(), A.getTrajectory().getCoefficients()) && h.getTrajectory().getBreakpoints() == A.getTrajectory().getBreakpoints() && h.getNumSegments() == N;
      for (int k = 0; okh && k < S; ++k) { auto a = A.getTrajectory().evaluate(A.getEndTime(), k), b = h.getTrajectory().evaluate(h.getEndTime(), k); okh = bits_equal(a.data(), b.data(), D); }
      if (!okh) { fail("route-shrunk-object", p, "a spline that held a larger problem before differs from a fresh construction (coefficients / knots / end state)"); break; } }
    // bookkeeping on every route
    double tmax = std::max(std::fabs(tp.front()), std::fabs(tp.back()));
    double ttol = exact ? 0.0 : 4.0 * N * ulp_of(tmax);
    for (int r = 0; r < 4; ++r) {
      const Sp &s = *routes[r];
      ++c.st.comparisons;
      bool ok = s.isInitialized() && s.getNumSegments() == N && (int)s.getNumPoints() == N + 1 && s.getDimension() == D;
      ok = ok && s.getStartTime() == q.t0;
      ok = ok && std::fabs(s.getEndTime() - tp[N]) <= ttol && std::fabs(s.getDuration() - (tp[N] - tp[0])) <= ttol + (exact ? 0 : ulp_of(tmax));
      const std::vector<double> &cum = s.getCumulativeTimes();
      ok = ok && (int)cum.size() == N + 1;
      if (ok) for (int i = 0; i <= N; ++i) ok = ok && std::fabs(cum[i] - tp[i]) <= ttol;
      ok = ok && s.getTimeSegments() == q.T;
      ok = ok && mat_bits_equal(s.getSpacePoints(), q.P);
      const auto &tr = s.getTrajectory();
      ok = ok && tr.isInitialized() && tr.getNumSegments() == N && tr.getNumCoeffs() == M && tr.getBreakpoints() == cum;
      ok = ok && tr.getStartTime() == cum.front() && tr.getEndTime() == cum.back();
      const auto &bcg = s.getBoundaryConditions();
      for (int side = 0; side < 2; ++side) for (int k = 1; k <= 3; ++k) ok = ok && bc_ref(bcg, side, k) == bc_ref(q.bc, side, k);
      if (!ok) fail("bookkeeping", p, std::string(rname[r]) + ": start/end/duration/segments/knot times/stored inputs disagree with the inputs");
    }
    // interpolation and boundary states on route A (others are bit-identical)
    const auto &tr = A.getTrajectory();
    const auto &C = tr.getCoefficients();
    const std::vector<double> &cum = A.getCumulativeTimes();
    for (int d = 0; d < D; ++d) {
      LD pc[16], pcl[16];
      for (int i = 0; i <= N; ++i) {
        const LD want = q.P(i, d);
        // from the right (global evaluate at the knot time)
        {
          double got = tr.evaluate(cum[i], 0)(d);
          int seg = i < N ? i : N - 1;
          piece_coeffs(C, M, seg, d, pc);
          LD tl = i < N ? 0.0L : (LD)q.T[N - 1];
          LD scale = std::max(poly_deriv_abs(pc, M, 0, tl), fabsl(want));
          LD slack = 4 * ulp_of(tmax) * poly_deriv_abs(pc, M, 1, tl);
          LD err = fabsl((LD)got - want);
          ++c.st.comparisons;
          double res = scale > 0 ? (double)(std::max((LD)0, err - slack) / scale) : (err > 0 ? 1.0 : 0.0);
          c.st.obs(std::string("interp_right/") + order_name(S), res);
          if (res > THR) fail("interp-right", p, fmt("knot %d dim %d got %.17g want %.17g res %.3g", i, d, got, (double)want, res));
        }
        // from the left (segment-local evaluate at its duration)
        if (i >= 1) {
          double got = tr[i - 1].evaluate(q.T[i - 1], 0)(d);
          piece_coeffs(C, M, i - 1, d, pcl);
          LD scale = std::max(poly_deriv_abs(pcl, M, 0, (LD)q.T[i - 1]), fabsl(want));
          LD err = fabsl((LD)got - want);
          ++c.st.comparisons;
          double res = scale > 0 ? (double)(err / scale) : (err > 0 ? 1.0 : 0.0);
          c.st.obs(std::string("interp_left/") + order_name(S), res);
          if (res > THR) fail("interp-left", p, fmt("knot %d dim %d got %.17g want %.17g res %.3g", i, d, got, (double)want, res));
          // independent long-double evaluation of the published piece agrees too
          LD ind = poly_deriv(pcl, M, 0, (LD)q.T[i - 1]);
          double res2 = scale > 0 ? (double)(fabsl(ind - want) / scale) : 0.0;
          c.st.obs(std::string("interp_left_ld/") + order_name(S), res2);
          if (res2 > THR) fail("interp-left-ld", p, fmt("knot %d dim %d ld %.17Lg want %.17g res %.3g", i, d, ind, (double)want, res2));
        }
      }
      for (int k = 1; k <= S - 1; ++k) {
        // start
        {
          const LD want = bc_ref(q.bc, 0, k)(d);
          double got = tr.evaluate(cum[0], k)(d);
          double got2 = tr[0].evaluate(0.0, k)(d);
          piece_coeffs(C, M, 0, d, pc);
          LD scale = std::max(poly_deriv_abs(pc, M, k, (LD)q.T[0]), fabsl(want));
          ++c.st.comparisons;
          double res = scale > 0 ? (double)(fabsl((LD)got - want) / scale) : (got != 0 ? 1.0 : 0.0);
          c.st.obs(std::string("bc_start/") + order_name(S), res);
          if (res > THR || !bits_equal(got, got2)) fail("bc-start", p, fmt("deriv %d dim %d got %.17g/%.17g want %.17g res %.3g", k, d, got, got2, (double)want, res));
        }
        // end
        {
          const LD want = bc_ref(q.bc, 1, k)(d);
          double got = tr[N - 1].evaluate(q.T[N - 1], k)(d);
          double gotg = tr.evaluate(cum[N], k)(d);
          piece_coeffs(C, M, N - 1, d, pc);
          LD scale = std::max(poly_deriv_abs(pc, M, k, (LD)q.T[N - 1]), fabsl(want));
          LD slack = 4 * ulp_of(tmax) * poly_deriv_abs(pc, M, k + 1, (LD)q.T[N - 1]);
          ++c.st.comparisons;
          double res = scale > 0 ? (double)(fabsl((LD)got - want) / scale) : (got != 0 ? 1.0 : 0.0);
          double resg = scale > 0 ? (double)(std::max((LD)0, fabsl((LD)gotg - want) - slack) / scale) : (gotg != 0 ? 1.0 : 0.0);
          c.st.obs(std::string("bc_end/") + order_name(S), std::max(res, resg));
          if (res > THR || resg > THR) fail("bc-end", p, fmt("deriv %d dim %d got %.17g (global %.17g) want %.17g res %.3g/%.3g", k, d, got, gotg, (double)want, res, resg));
        }
      }
    }
    // the waypoints and both boundary states read back through the HINTED overloads with one caller-held hint that is carried along:
    // start -> end (jumps over every interior segment) -> every second knot descending -> every third knot ascending -> end -> start.
    // A hint is an accelerator only: each value must equal the un-hinted one bitwise (seeded change C01-m6: forward jumps past the next segment)
    { int hint = 0; std::vector<int> visit = {0, N}; for (int i = N; i >= 0; i -= 2) visit.push_back(i); for (int i = 0; i <= N; i += 3) visit.push_back(i); visit.push_back(N); visit.push_back(0);
      ++c.st.comparisons; bool okh = true;
      for (size_t vi = 0; okh && vi < visit.size(); ++vi) { const int i = visit[vi]; for (int k = 0; okh && k <= ((i == 0 || i == N) ? S - 1 : 0); ++k) { const double t = cum[i]; auto hv = tr.evaluate(t, &hint, k), uv = tr.evaluate(t, k);
        if (!bits_equal(hv.data(), uv.data(), D)) { fail("interp-hinted-readback", p, fmt("derivative %d at knot %d read with a carried hint (now %d) differs from the un-hinted value", k, i, hint)); okh = false; } } } }
  }

  // BoundaryConditions constructors route their arguments (2/4/6-argument forms)
  void check_bc_ctors(Prob p) {
    typedef typename Prob::Vec V;
    V a[6]; for (int k = 0; k < 6; ++k) for (int d = 0; d < D; ++d) a[k](d) = (k + 1) + (d + 1) / 16.0;
    BoundaryConditions<D> b2(a[0], a[1]), b4(a[0], a[1], a[2], a[3]), b6(a[0], a[1], a[2], a[3], a[4], a[5]);
    V z = V::Zero();
    bool ok = b2.start_velocity == a[0] && b2.end_velocity == a[1] && b2.start_acceleration == z && b2.end_acceleration == z && b2.start_jerk == z && b2.end_jerk == z;
    ok = ok && b4.start_velocity == a[0] && b4.start_acceleration == a[1] && b4.end_velocity == a[2] && b4.end_acceleration == a[3] && b4.start_jerk == z && b4.end_jerk == z;
    ok = ok && b6.start_velocity == a[0] && b6.start_acceleration == a[1] && b6.start_jerk == a[2] && b6.end_velocity == a[3] && b6.end_acceleration == a[4] && b6.end_jerk == a[5];
    ++c.st.comparisons;
    if (!ok) fail("bc-ctor-routing", p, "BoundaryConditions 2/4/6-argument constructor mis-routes an argument");
    // and through a spline: the constructor form natural for this order
    p.bc = S == 2 ? b2 : S == 3 ? b4 : b6;
    check_problem(p, true);
    if (S == 4) { p.bc = b4; check_problem(p, true); }  // fewer arguments than the order uses: jerk defaults to 0
    if (S >= 3) { p.bc = b2; check_problem(p, true); }
  }

  void run_case(int N, const std::vector<double> &T, double t0, bool exact, bool with_ctor) {
    Prob p; p.N = N; p.T = T; p.t0 = t0;
    int nb = nbasis(S, N);
    for (int b = 0; b < nb; ++b) { set_basis_data(p, S, b); check_problem(p, exact); }
    set_generic_data(p, (uint64_t)c.args.seed * 1000 + N); check_problem(p, exact);
    if (with_ctor && exact) check_bc_ctors(p);
  }
};

template <int S> static void explore(Ctx &c, long &id) {
  const bool th = c.args.thorough();
  const int Nmax3 = th ? 8 : 5;
  std::vector<double> sigmas = th ? std::vector<double>{0.125, 1.0, 8.0} : std::vector<double>{1.0};
  // -3.7 is neither dyadic nor representable in single precision (seeded change C01-m11: a start-time parameter narrowed to float)
  std::vector<double> t0s = th ? std::vector<double>{0.0, -2.5, 1024.125, 1048576.25, -3.7} : std::vector<double>{0.0, -3.7, 1024.125};
  // alphabet 0: dyadic letters; alphabet 1 (thorough): seed-derived non-dyadic jitter, ratio kept <= R
  for (int alpha = 0; alpha < 3; ++alpha) {
    if (alpha == 1 && !th) continue;
    double L[3]; for (int i = 0; i < 3; ++i) L[i] = letters(S)[i];
    if (alpha == 1) { Lcg g((uint64_t)c.args.seed * 77 + S); L[0] *= 1.0 + (1 + g.next() % 1000) / 16384.0; L[1] *= 1.0 + (1 + g.next() % 1000) / 16001.0; /* L[2] unchanged: ratio stays <= R */ }
    // alphabet 2 (both tiers): NEARLY EQUAL letters 1, 1+2^-22, 1-2^-21 (neighbouring durations that differ by less than 1e-6 but are
    // not bit-identical): a tolerance used where exact equality was meant shows up here (seeded change C01-m4)
    if (alpha == 2) { L[0] = 1.0 - 4.76837158203125e-07; L[1] = 1.0; L[2] = 1.0 + 2.384185791015625e-07; }
    int nmax = alpha == 1 ? std::min(Nmax3, 6) : alpha == 2 ? std::min(Nmax3, th ? 6 : 4) : Nmax3;
    for (int N = 1; N <= (th && alpha == 0 ? 10 : nmax); ++N) {
      int base = N <= nmax ? 3 : 2;
      long nw = ipow(base, N);
      for (long w = 0; w < nw; ++w) for (size_t si = 0; si < sigmas.size(); ++si) for (size_t ti = 0; ti < t0s.size(); ++ti) {
        long my = id++;
        if (alpha >= 1 && ti >= 2) continue;  // non-dyadic durations only with moderate start times
        if (!c.mine(my)) continue;
        std::string unit = str(my);
        if (!c.begin(unit)) continue;
        std::vector<double> T(N);
        { long ww = w; for (int i = 0; i < N; ++i) { int l = ww % base; ww /= base; T[i] = (base == 3 ? L[l] : (l == 0 ? L[0] : L[2])) * sigmas[si]; } }
        Runner<S> r(c, unit);
        r.run_case(N, T, t0s[ti], alpha == 0 && t0s[ti] != -3.7, si == 0 && ti == 0);
        ++c.st.evaluations;
        std::string key = fmt("S%d/a%d/N%d/w%ld/s%zu/t%zu", S, alpha, N, w, si, ti);
        if (!c.st.seen(key) && N >= 2) ++c.st.nontrivial;
        c.st.cls(fmt("%s/%s", order_name(S), N == 1 ? "N=1(no system)" : N == 2 ? "N=2(single block)" : N == 3 ? "N=3(first+last block)" : "N>=4(interior blocks)"));
        if (my % 997 == 0) c.st.sample(fmt("unit %ld: %s D=%d alphabet=%d N=%d word=%s sigma=%g t0=%g, all %d basis data vectors + generic, 4 construction routes", my, order_name(S), D, alpha, N, word_str(N, w, base).c_str(), sigmas[si], t0s[ti], nbasis(S, N)));
      }
    }
  }
}

// long splines: segment counts around powers of two (blocked / unrolled loops change behaviour exactly there), uniform and alternating durations
template <int S> static void explore_long(Ctx &c, long &id) {
  for (int N : {31, 32, 33, 64, 128}) for (int pat = 0; pat < 2; ++pat) {
    long my = id++; if (!c.mine(my)) continue; std::string unit = str(my); if (!c.begin(unit)) continue;
    const double *L = letters(S); std::vector<double> T(N); for (int i = 0; i < N; ++i) T[i] = pat == 0 ? L[1] : ((i & 1) ? L[1] : L[1] * 0.5);
    Runner<S> r(c, unit); r.run_case(N, T, pat ? -2.5 : 1024.125, true, pat == 0);
    ++c.st.evaluations; if (!c.st.seen(fmt("long/S%d/N%d/%d", S, N, pat))) ++c.st.nontrivial; c.st.cls(fmt("%s/long (N around 32, 64, 128)", order_name(S)));
    if (N == 32) c.st.sample(fmt("unit %ld: %s D=%d N=%d %s durations: interpolation, boundary states and bookkeeping for every basis data vector + generic data", my, order_name(S), D, N, pat ? "alternating" : "uniform"));
  }
}

int main(int argc, char **argv) {
  Args a = parse_args(argc, argv);
  return supervise(a, [&](Ctx &c) {
    long id = 0;
    explore<2>(c, id); explore<3>(c, id); explore<4>(c, id);
    explore_long<2>(c, id); explore_long<3>(c, id); explore_long<4>(c, id);
    c.st.notes["dim"] = str(D);
  });
}
