// C03 -- piecewise-polynomial evaluation: exact, right-continuous, route-independent (E1 + E2 over the hint protocol; R3; argument S).
#include "splinekit.hpp"
#include <climits>
using namespace vf;

// breakpoints: dyadic (<= 3 fractional bits), non-uniform, negative start; variant 1 repeats one breakpoint (empty piece)
static std::vector<double> make_breakpoints(int n, int variant) {
  static const double steps[5] = {0.5, 1.25, 0.125, 2.0, 0.375};
  std::vector<double> b(n + 1); b[0] = -3.625;
  for (int i = 0; i < n; ++i) b[i + 1] = b[i] + steps[i % 5];
  if (variant == 1 && n >= 3) { int r = n / 2; double w = b[r + 1] - b[r]; for (int i = r + 1; i <= n; ++i) b[i] -= w; }  // b[r] == b[r+1]
  return b;
}
// oracle: half-open rule
static int oracle_piece(const std::vector<double> &b, double t) {
  int n = (int)b.size() - 1;
  if (t < b[0]) return 0;
  if (t >= b[n]) return n - 1;
  for (int i = 0; i < n; ++i) if (t >= b[i] && t < b[i + 1]) return i;
  return n - 1;
}

template <int DIM, int ORDER> struct Cfg {
  typedef PPolyND<DIM, ORDER> PP;
  typedef typename PP::MatrixType Mat;
  typedef typename PP::VectorType Vec;
  Ctx &c; const std::string &unit; int nc, n, variant;
  std::vector<double> b; Mat C; PP pp;
  std::string tag;
  Cfg(Ctx &c_, const std::string &u, int nc_, int n_, int v) : c(c_), unit(u), nc(nc_), n(n_), variant(v) {
    b = make_breakpoints(n, v);
    C.resize(n * nc, DIM);
    for (int s = 0; s < n; ++s) for (int k = 0; k < nc; ++k) for (int d = 0; d < DIM; ++d) C(s * nc + k, d) = (double)(((s * 7 + k * 3 + d * 5) % 11) - 5);  // small integers, zeros included
    pp = PP(b, C, nc);
    tag = fmt("DIM=%d ORDER=%s nc=%d segments=%d bp-variant=%d", DIM, ORDER == Eigen::Dynamic ? "Dynamic" : str(ORDER).c_str(), nc, n, v);
  }
  void fail(const std::string &what, const std::string &detail) { c.st.violate(unit, tag + ": " + what + ": " + detail, {{"what", what}}); }
  std::vector<double> t_alphabet() const {
    std::vector<double> ts;
    ts.push_back(b[0] - 1000.0);
    for (int i = 0; i <= n; ++i) { ts.push_back(std::nextafter(b[i], -INFINITY)); ts.push_back(b[i]); ts.push_back(std::nextafter(b[i], INFINITY)); if (i < n && b[i + 1] > b[i]) ts.push_back(0.5 * (b[i] + b[i + 1])); }
    ts.push_back(b[n] + 1000.0);
    return ts;
  }
  // reference value and tolerance
  void oracle(double t, int k, int piece, Vec &val, Vec &tol) const {
    LD dt = (LD)t - (LD)b[piece];
    for (int d = 0; d < DIM; ++d) {
      LD cc[16]; for (int j = 0; j < nc; ++j) cc[j] = C(piece * nc + j, d);
      LD v = poly_deriv(cc, nc, k, dt), mag = poly_deriv_abs(cc, nc, k, dt), dmag = poly_deriv_abs(cc, nc, k + 1, dt);
      val(d) = (double)v;
      double ul = std::nextafter((double)mag, INFINITY) - (double)mag;
      double ut = std::nextafter(std::fabs(t), INFINITY) - std::fabs(t);
      tol(d) = 8.0 * nc * ul + (double)dmag * ut * 2 + 1e-300;
    }
  }
  static bool same(const Vec &a, const Vec &b2) { return bits_equal(a.data(), b2.data(), DIM); }

  bool run_static() {
    if (!pp.isInitialized() || pp.getNumSegments() != n || pp.getNumCoeffs() != nc || pp.getDegree() != nc - 1 || pp.getDimension() != DIM) { fail("construct", "object not initialised as given"); return false; }
    if (pp.getBreakpoints() != b || !mat_bits_equal(pp.getCoefficients(), C) || pp.getStartTime() != b[0] || pp.getEndTime() != b[n] || pp.getDuration() != b[n] - b[0]) { fail("accessors", "breakpoints/coefficients/start/end/duration differ from the inputs"); return false; }
    // segment accessors through operator[], at(), iterators
    { int i = 0; auto it = pp.begin();
      for (; it != pp.end(); ++it, ++i) {
        auto s1 = pp[i]; auto s2 = pp.at(i); auto s3 = *it; auto it2 = pp.begin() + i;
        bool ok = s1.index() == i && s2.index() == i && s3.index() == i && it->index() == i && (*it2).index() == i && (it2 - pp.begin()) == i;
        // iterator arithmetic from a NON-begin position, and distances between arbitrary iterators
        for (int a = 0; a <= i; ++a) { auto it3 = (pp.begin() + a) + (i - a); ok = ok && (*it3).index() == i && it3->startTime() == b[i] && (it3 - (pp.begin() + a)) == (i - a) && it3 == it2 && !(it3 != it2); if (a > 3 && a < i - 3) a = i - 3; }
        ok = ok && (pp.end() - it2) == (n - i) && ((it + 0) == it);
        ok = ok && s1.startTime() == b[i] && s1.endTime() == b[i + 1] && s1.duration() == b[i + 1] - b[i] && it->startTime() == b[i];
        Mat blk = s1.getCoeffs(); ok = ok && blk.rows() == nc; if (ok) for (int k = 0; k < nc; ++k) for (int d = 0; d < DIM; ++d) ok = ok && blk(k, d) == C(i * nc + k, d);
        ++c.st.comparisons;
        if (!ok) { fail("segment-accessors", fmt("segment %d", i)); return false; }
      }
      if (i != n) { fail("iterator", fmt("begin..end visits %d segments, expected %d", i, n)); return false; }
      auto e = pp.end(); --e; if ((*e).index() != n - 1) fail("iterator", "--end() is not the last segment");
      // post-increment / post-decrement return the OLD position and move by one; a backward walk with --it visits n-1 .. 0
      { auto a = pp.begin(); int k = 0; bool ok2 = true; while (a != pp.end()) { auto old = a++; ok2 = ok2 && (*old).index() == k && (old - pp.begin()) == k && (a - pp.begin()) == k + 1; ++k; } ok2 = ok2 && k == n;
        auto z = pp.end(); for (int q = n; q >= 1; --q) { auto old = z--; ok2 = ok2 && (old - pp.begin()) == q && (z - pp.begin()) == q - 1 && (*z).index() == q - 1; } ok2 = ok2 && z == pp.begin();
        auto w = pp.end(); for (int q = n - 1; q >= 0; --q) { --w; ok2 = ok2 && w->index() == q && w->endTime() == b[q + 1]; } ++c.st.comparisons;
        if (!ok2) { fail("iterator", "post-increment / post-decrement / backward walk do not visit the segments in order"); return false; } }
      auto pi = pp.begin(); auto old = pi++; if ((*old).index() != 0 || (*pi).index() != (n > 1 ? 1 : 1)) fail("iterator", "post-increment");
      auto pd = pi--; if ((*pd).index() != 1 || (*pi).index() != 0) fail("iterator", "post-decrement");
      if (!(pp.begin() == pp.begin()) || (pp.begin() != pp.begin()) || (n > 0 && pp.begin() == pp.end())) fail("iterator", "comparison operators");
    }
    std::vector<double> ts = t_alphabet();
    std::vector<int> hints = {INT_MIN, -5, -1, n, n + 7, INT_MAX};
    for (int i = 0; i < n; ++i) hints.push_back(i);
    // derivative trajectories (built once)
    std::vector<PP> der; for (int j = 0; j <= nc + 1; ++j) der.push_back(pp.derivative(j));
    for (int j = 0; j <= nc + 1; ++j) { ++c.st.comparisons; if (!der[j].isInitialized() || der[j].getNumSegments() != n || der[j].getBreakpoints() != b || der[j].getNumCoeffs() != (j < nc ? nc - j : 1)) { fail("derivative-traj", fmt("derivative(%d) has wrong shape", j)); return false; } }
    // derivative() is a pure function of (object, order): chained calls and calls repeated in another order give the same trajectories. The
    // call sequence below makes consecutive calls return the SAME coefficient count from DIFFERENT orders (seeded change C03-m10: a
    // function-local factor row refreshed only when its length changes)
    for (int j1 = 1; j1 <= 2; ++j1) for (int j2 = 1; j2 <= 2; ++j2) { if (j1 + j2 >= nc) continue;
      PP chain = pp.derivative(j1).derivative(j2);      // leaves (length nc-j1-j2, order j2) behind
      PP direct = pp.derivative(j1 + j2);               // same length, order j1+j2
      PP again1 = pp.derivative(j1);                    // and back
      ++c.st.comparisons;
      if (!mat_bits_equal(direct.getCoefficients(), der[j1 + j2].getCoefficients()) || !mat_bits_equal(again1.getCoefficients(), der[j1].getCoefficients())) { fail("derivative-traj", fmt("derivative(%d) called after derivative(%d).derivative(%d) differs from the same call made earlier", j1 + j2, j1, j2)); return false; }
      if (chain.getNumCoeffs() != nc - j1 - j2 || chain.getBreakpoints() != b) { fail("derivative-traj", fmt("derivative(%d).derivative(%d) has the wrong shape", j1, j2)); return false; }
      for (int i = 0; i < n; i += std::max(1, n / 4)) { const double t = b[i] + 0.25 * (b[i + 1] - b[i]); Vec a = chain.evaluate(t, 0), w = pp.evaluate(t, j1 + j2); for (int d = 0; d < DIM; ++d) if (std::fabs(a(d) - w(d)) > 1e-12 * (std::fabs(w(d)) + 1e-300) + 1e-300) { fail("derivative-traj", fmt("derivative(%d).derivative(%d).evaluate(%.17g) = %.17g, evaluate(t,%d) = %.17g", j1, j2, t, a(d), j1 + j2, w(d))); return false; } } }
    for (int k = 0; k <= nc + 1; ++k) {
      SplineTrajectory::SplineVector<Vec> batch = pp.evaluate(ts, k);
      if (batch.size() != ts.size()) { fail("batch", "wrong result count"); return false; }
      for (size_t ti = 0; ti < ts.size(); ++ti) {
        const double t = ts[ti];
        const int piece = oracle_piece(b, t);
        Vec want, tol; oracle(t, k, piece, want, tol);
        Vec plain = pp.evaluate(t, k);
        ++c.st.comparisons;
        for (int d = 0; d < DIM; ++d) {
          double e = std::fabs(plain(d) - want(d));
          c.st.obs("value_vs_oracle_in_tol_units", e / tol(d) * 1e-3);  // recorded in units of 1000 tol
          if (!(e <= tol(d))) { fail("value", fmt("t=%.17g k=%d dim %d piece %d: got %.17g want %.17g tol %.3g", t, k, d, piece, plain(d), want(d), tol(d))); return false; }
          if (k >= nc && plain(d) != 0.0) { fail("beyond-degree", fmt("t=%.17g k=%d: non-zero", t, k)); return false; }
        }
        // hinted route from every hint value
        for (int h0 : hints) {
          int h = h0; Vec hv = pp.evaluate(t, &h, k);
          ++c.st.comparisons;
          if (!same(hv, plain)) { fail("hinted-value", fmt("t=%.17g k=%d hint %d: hinted result differs from plain", t, k, h0)); return false; }
          if (k < nc && h != piece) { fail("hint-update", fmt("t=%.17g k=%d hint %d -> %d, piece used is %d", t, k, h0, h, piece)); return false; }
        }
        { Vec nv = pp.evaluate(t, (int *)nullptr, k); ++c.st.comparisons; if (!same(nv, plain)) { fail("null-hint", fmt("t=%.17g k=%d", t, k)); return false; } }
        if (!same(batch[ti], plain)) { fail("batch", fmt("t=%.17g k=%d: batch differs from pointwise", t, k)); return false; }
        // per-segment local-time evaluation reached by indexing / at() / iteration
        { double lt = t - b[piece]; Vec a1 = pp[piece].evaluate(lt, k), a2 = pp.at(piece).evaluate(lt, k), a3 = (*(pp.begin() + piece)).evaluate(lt, k), a4 = (pp.begin() + piece)->evaluate(lt, k);
          ++c.st.comparisons;
          if (!same(a1, plain) || !same(a2, plain) || !same(a3, plain) || !same(a4, plain)) { fail("segment-route", fmt("t=%.17g k=%d piece %d", t, k, piece)); return false; } }
        // Deriv enum overloads
        if (k <= 6) { Deriv dv = (Deriv)k; int h = -1; Vec e1 = pp.evaluate(t, dv), e2 = pp.evaluate(t, &h, dv), e3 = pp[piece].evaluate(t - b[piece], dv); auto e4 = pp.evaluate(std::vector<double>{t}, dv);
          ++c.st.comparisons;
          if (!same(e1, plain) || !same(e2, plain) || !same(e3, plain) || e4.size() != 1 || !same(e4[0], plain)) { fail("deriv-enum", fmt("t=%.17g k=%d", t, k)); return false; }
          if (k < nc && h != piece) { fail("hint-update(Deriv overload)", fmt("t=%.17g k=%d: hinted Deriv overload leaves the hint at %d, piece used is %d", t, k, h, piece)); return false; }
          for (int h0 : {n - 1, 0}) { int hh = h0; (void)pp.evaluate(t, &hh, dv); ++c.st.comparisons; if (k < nc && hh != piece) { fail("hint-update(Deriv overload)", fmt("t=%.17g k=%d hint %d -> %d, piece used is %d", t, k, h0, hh, piece)); return false; } } }
        if (k == 0) { Vec d0 = pp.evaluate(t); int h = n - 1; Vec d1 = pp.evaluate(t, &h); ++c.st.comparisons; if (!same(d0, plain) || !same(d1, plain) || h != piece) { fail("default-deriv", fmt("t=%.17g: value or hint (%d, piece %d) wrong for the defaulted Deriv argument", t, h, piece)); return false; } }
        // derivative trajectories: derivative(j).evaluate(t, k-j) for every j <= k
        for (int j = 0; j <= k; ++j) {
          Vec dv = der[j].evaluate(t, k - j);
          ++c.st.comparisons;
          if (!same(dv, plain)) { fail("derivative-route", fmt("t=%.17g: derivative(%d).evaluate(t,%d) differs from evaluate(t,%d): %.17g vs %.17g", t, j, k - j, k, dv(0), plain(0))); return false; }
        }
      }
    }
    // the same object updated with same-shaped other data (after all the evaluations above filled its caches) evaluates like a fresh one
    { Mat C2 = C; for (int r = 0; r < C2.rows(); ++r) for (int d = 0; d < DIM; ++d) C2(r, d) = -C2(r, d) + (double)((r + d) % 3);
      std::vector<double> b2 = b; for (double &x : b2) x += 0.5;
      PP q = pp; q.update(b2, C2, nc); PP fresh(b2, C2, nc);
      for (double t : ts) for (int k = 0; k <= nc; ++k) { Vec a = q.evaluate(t + 0.5, k), w = fresh.evaluate(t + 0.5, k); int h = 0; Vec a2 = q.evaluate(t + 0.5, &h, k); ++c.st.comparisons;
        if (!same(a, w) || !same(a2, w)) { fail("evaluate-after-update", fmt("t=%.17g k=%d: an updated object evaluates to %.17g, a fresh one with the same data to %.17g", t + 0.5, k, a(0), w(0))); return false; } } }
    return true;
  }
  // E2 confirmation: every sequence of hinted calls of length <= depth over the t alphabet, the hint carried along
  void run_histories(int depth) {
    std::vector<double> ts = t_alphabet();
    const int k = nc > 1 ? 1 : 0;
    std::vector<Eigen::Matrix<double, DIM, 1>, Eigen::aligned_allocator<Eigen::Matrix<double, DIM, 1>>> plain(ts.size()); std::vector<int> piece(ts.size());
    for (size_t i = 0; i < ts.size(); ++i) { plain[i] = pp.evaluate(ts[i], k); piece[i] = oracle_piece(b, ts[i]); }
    size_t A = ts.size(); long total = 1; for (int i = 0; i < depth; ++i) total *= (long)A;
    for (long q = 0; q < total; ++q) {
      int h = 0; long qq = q;
      for (int i = 0; i < depth; ++i) { size_t a = qq % A; qq /= A; Vec v = pp.evaluate(ts[a], &h, k); ++c.st.comparisons;
        if (!same(v, plain[a]) || h != piece[a]) { fail("hint-history", fmt("sequence #%ld step %d t=%.17g: value or hint wrong (hint %d, piece %d)", q, i, ts[a], h, piece[a])); return; } }
    }
    c.st.cls(fmt("hint histories depth %d", depth), total);
  }
};

template <int DIM, int ORDER> static void explore_order(Ctx &c, long &id) {
  static const int segs[9] = {1, 2, 3, 31, 32, 33, 40, 64, 100};
  const int ncmax = ORDER == Eigen::Dynamic ? 12 : ORDER;
  for (int nc = 1; nc <= ncmax; ++nc) for (int si = 0; si < (c.args.thorough() ? 9 : 7); ++si) for (int v = 0; v < 2; ++v) {
    int n = segs[si]; if (v == 1 && n < 3) continue;
    long my = id++;
    if (!c.mine(my)) continue;
    std::string unit = str(my);
    if (!c.begin(unit)) continue;
    Cfg<DIM, ORDER> cfg(c, unit, nc, n, v);
    bool ok = cfg.run_static();
    if (ok && (n == 3 || n == 33) && v == 0 && (nc == 4 || nc == 9)) cfg.run_histories(n == 3 ? 3 : (c.args.thorough() ? 3 : 2));
    ++c.st.evaluations;
    if (!c.st.seen(cfg.tag) && nc >= 2) ++c.st.nontrivial;
    c.st.cls(n < 32 ? "linear search (<32 segments)" : "binary search (>=32 segments)");
    c.st.cls(ORDER == Eigen::Dynamic ? (nc > 8 ? "dynamic order, >8 coefficients (dynamic factor table)" : "dynamic order, <=8 coefficients (static table)") : (ORDER <= 8 ? "fixed order <=8 (constexpr table)" : (nc > 8 ? "fixed order 12, >8 coefficients" : "fixed order 12, <=8 coefficients")));
    if (my % 37 == 0) c.st.sample(fmt("unit %ld: %s: t in {each breakpoint, one ulp either side, midpoints, far outside} x k=0..%d x routes {plain, hinted from %d hint values, batch, [] / at() / iterator + local time, Deriv enum, derivative(j).evaluate(t,k-j)}", my, cfg.tag.c_str(), nc + 1, n + 6));
  }
}
template <int DIM> static void explore_dim(Ctx &c, long &id) {
  explore_order<DIM, Eigen::Dynamic>(c, id); explore_order<DIM, 4>(c, id); explore_order<DIM, 6>(c, id); explore_order<DIM, 8>(c, id); explore_order<DIM, 12>(c, id);
}

int main(int argc, char **argv) {
  Args a = parse_args(argc, argv);
  return supervise(a, [&](Ctx &c) { long id = 0; explore_dim<1>(c, id); explore_dim<2>(c, id); explore_dim<3>(c, id); });
}
