// C13 -- spatial dimensions are solved independently (E1; differential oracle: D-dim spline vs D one-dimensional splines).
// -DVDIM=<d>
#include "splinekit.hpp"
#ifndef VDIM
#define VDIM 3
#endif
using namespace vf;
static const int D = VDIM;
typedef Problem<D> Prob;
// same algorithm on both sides; measured bit-identical on the pinned tree. The tolerance (that of C02) only keeps a
// re-associated but correct refactoring from alarming.
static double thr(int S) { return S == 2 ? 3e-9 : S == 3 ? 1e-8 : 1e-6; }

template <int S> struct Runner {
  typedef Spl<S, D> Sp;
  typedef Spl<S, 1> Sp1;
  typedef typename Sp::MatrixType Mat;
  typedef typename Sp1::MatrixType Mat1;
  static const int M = 2 * S;
  Ctx &c; const std::string &unit;
  Runner(Ctx &c_, const std::string &u) : c(c_), unit(u) {}
  void fail(const std::string &what, const Prob &p, const std::string &detail) {
    c.st.violate(unit, fmt("%s D=%d: %s: %s | %s", order_name(S), D, what.c_str(), detail.c_str(), describe(p).c_str()), {{"order", order_name(S)}, {"what", what}});
  }
  static Problem<1> coord(const Prob &p, int d) {
    Problem<1> q; q.N = p.N; q.T = p.T; q.t0 = p.t0; q.P.resize(p.N + 1, 1);
    for (int i = 0; i <= p.N; ++i) q.P(i, 0) = p.P(i, d);
    for (int side = 0; side < 2; ++side) for (int k = 1; k <= 3; ++k) bc_ref(q.bc, side, k)(0) = bc_ref(p.bc, side, k)(d);
    return q;
  }
  static Prob permute(const Prob &p, const std::vector<int> &perm) {  // new coordinate d = old coordinate perm[d]
    Prob q = p;
    for (int d = 0; d < D; ++d) { for (int i = 0; i <= p.N; ++i) q.P(i, d) = p.P(i, perm[d]); for (int side = 0; side < 2; ++side) for (int k = 1; k <= 3; ++k) bc_ref(q.bc, side, k)(d) = bc_ref(p.bc, side, k)(perm[d]); }
    return q;
  }
  void cmp(const char *what, const Prob &p, double got, double want, double scale, double th, bool &bitwise) {
    ++c.st.comparisons; if (!bits_equal(got, want)) bitwise = false;
    double res = scale > 0 ? std::fabs(got - want) / scale : (got != want ? 1.0 : 0.0);
    c.st.obs(fmt("%s/%s", what, order_name(S)), res);
    if (res > th) fail(what, p, fmt("got %.17g want %.17g res %.3g", got, want, res));
  }
  // object reached through a history: built from `prior`, queried, then updated to `p` (route 1: duration overload, 2: time-point overload)
  template <int DD> static Spl<S, DD> via(const Problem<DD> &prior, const Problem<DD> &p, int route) {
    Spl<S, DD> s = build<S, DD>(prior); (void)s.getEnergy(); (void)s.getEnergyGrad(); (void)s.getTrajectory().evaluate(prior.t0 + 0.25 * prior.T[0], 1);
    if (route == 2) s.update(p.timepoints(), p.P, p.bc); else s.update(p.T, p.P, p.t0, p.bc);
    return s;
  }
  void run_problem(const Prob &p, bool sparse_last = false, const Prob *prior = nullptr, int route = 0) {
    const int N = p.N, n = M * N;
    Sp sp = prior ? via<D>(*prior, p, route) : build<S, D>(p);
    if (prior) { ++c.st.comparisons; if (!mat_bits_equal(sp.getSpacePoints(), p.P)) { fail("update-keeps-old-waypoints", p, "getSpacePoints() after update() is not the matrix that was passed"); return; } }
    const auto &C = sp.getTrajectory().getCoefficients();
    // dense dyadic upstream gradient
    Lcg g((uint64_t)c.args.seed + 99);
    Mat gdC(n, D); Eigen::VectorXd gdT(N);
    for (int r = 0; r < n; ++r) for (int d = 0; d < D; ++d) gdC(r, d) = g.dyadic();
    for (int i = 0; i < N; ++i) gdT(i) = g.dyadic();
    // whole-row / whole-vector shortcuts couple the coordinates: the last coordinate's upstream gradient is 'knot-sampled' (only the
    // rows c0..c_{s-1} non-zero) in every second problem, while the other coordinates stay dense
    if (sparse_last) for (int r = 0; r < n; ++r) if (r % M >= S) gdC(r, D - 1) = 0.0;
    Eigen::VectorXd gdT0 = Eigen::VectorXd::Zero(N);
    auto G = sp.propagateGrad(gdC, gdT0);  // duration upstream kept zero so that the sum over coordinates is well defined
    auto EG = sp.getEnergyGrad();
    double E = sp.getEnergy();
    bool bitwise = true;
    double sumE = 0; Eigen::VectorXd sumT = Eigen::VectorXd::Zero(N), sumET = Eigen::VectorXd::Zero(N);
    double tscale = 0, etscale = 0;
    for (int d = 0; d < D; ++d) {
      Problem<1> q = coord(p, d);
      Sp1 s1 = prior ? via<1>(coord(*prior, d), q, route) : build<S, 1>(q);
      const auto &C1 = s1.getTrajectory().getCoefficients();
      double gs = 0; for (int i = 0; i < N; ++i) { double tp = 1; for (int k = 0; k < M; ++k) { gs = std::max(gs, std::fabs(C1(i * M + k, 0)) * tp); tp *= p.T[i]; } }
      for (int i = 0; i < N; ++i) { double tp = 1; for (int k = 0; k < M; ++k) { double sc = gs / tp; ++c.st.comparisons; if (!bits_equal(C(i * M + k, d), C1(i * M + k, 0))) bitwise = false; double res = gs > 0 ? std::fabs(C(i * M + k, d) - C1(i * M + k, 0)) / sc : (C(i * M + k, d) != 0 ? 1.0 : 0.0); c.st.obs(fmt("coeffs/%s", order_name(S)), res); if (res > thr(S)) { fail("coeffs-vs-1D", p, fmt("seg %d power %d dim %d: %.17g vs %.17g", i, k, d, C(i * M + k, d), C1(i * M + k, 0))); return; } tp *= p.T[i]; } }
      // evaluations
      for (int i = 0; i < N; ++i) for (int k = 0; k <= 2; ++k) { double t = sp.getCumulativeTimes()[i] + 0.375 * p.T[i]; double a = sp.getTrajectory().evaluate(t, k)(d), b = s1.getTrajectory().evaluate(t, k)(0); double sc = gs; for (int q2 = 0; q2 < k; ++q2) sc /= p.T[i]; cmp("evaluate", p, a, b, sc * 10, thr(S), bitwise); }
      // propagated gradients with the same upstream column
      Mat1 g1(n, 1); for (int r = 0; r < n; ++r) g1(r, 0) = gdC(r, d);
      auto G1 = s1.propagateGrad(g1, gdT0);
      std::vector<double> a = grads_data_vec<S>(G, N, d), b = grads_data_vec<S>(G1, N, 0);
      double sc = 0; for (double v : b) sc = std::max(sc, std::fabs(v));
      // data gradients: normalise columns like C05 (boundary derivative k scaled by T^k) is unnecessary here: both sides are the same algorithm
      for (size_t i = 0; i < a.size(); ++i) cmp("propagated-data-grads", p, a[i], b[i], sc, thr(S) * 1e3, bitwise);
      sumT += G1.times; for (int i = 0; i < N; ++i) tscale = std::max(tscale, std::fabs(G1.times(i)));
      auto EG1 = s1.getEnergyGrad();
      std::vector<double> ea = grads_data_vec<S>(EG, N, d), eb = grads_data_vec<S>(EG1, N, 0);
      double esc = 0; for (double v : eb) esc = std::max(esc, std::fabs(v));
      for (size_t i = 0; i < ea.size(); ++i) cmp("energy-data-grads", p, ea[i], eb[i], esc, thr(S) * 1e3, bitwise);
      sumET += EG1.times; for (int i = 0; i < N; ++i) etscale = std::max(etscale, std::fabs(EG1.times(i)));
      sumE += s1.getEnergy();
    }
    bool dummy = true;
    cmp("energy-sum", p, E, sumE, std::fabs(sumE), 1e-9, dummy);
    for (int i = 0; i < N; ++i) { cmp("propagated-times-sum", p, G.times(i), sumT(i), tscale * D, thr(S) * 1e3, dummy); cmp("energy-times-sum", p, EG.times(i), sumET(i), etscale * D, thr(S) * 1e3, dummy); }
    c.st.cls(bitwise ? "D-dim vs 1-D stack: bit-identical" : "D-dim vs 1-D stack: within tolerance only");
    // coordinate permutations: every cyclic shift and one transposition
    if (D > 1) {
      std::vector<std::vector<int>> perms;
      for (int sft = 1; sft < D; ++sft) { std::vector<int> pm(D); for (int d = 0; d < D; ++d) pm[d] = (d + sft) % D; perms.push_back(pm); }
      { std::vector<int> pm(D); for (int d = 0; d < D; ++d) pm[d] = d; std::swap(pm[0], pm[D - 1]); perms.push_back(pm); }
      for (auto &pm : perms) {
        Prob q = permute(p, pm); Sp sq = build<S, D>(q);
        const auto &Cq = sq.getTrajectory().getCoefficients();
        Mat gq(n, D); for (int r = 0; r < n; ++r) for (int d = 0; d < D; ++d) gq(r, d) = gdC(r, pm[d]);
        auto Gq = sq.propagateGrad(gq, gdT);
        auto Gp = sp.propagateGrad(gdC, gdT);
        bool bw = true;
        for (int d = 0; d < D; ++d) {
          for (int r = 0; r < n; ++r) { ++c.st.comparisons; if (!bits_equal(Cq(r, d), C(r, pm[d]))) { bw = false; double sc = std::max(std::fabs(C(r, pm[d])), 1e-300); if (std::fabs(Cq(r, d) - C(r, pm[d])) > 1e-9 * C.cwiseAbs().maxCoeff()) { fail("permutation-coeffs", p, fmt("row %d new dim %d", r, d)); return; } (void)sc; } }
          std::vector<double> a = grads_data_vec<S>(Gq, N, d), b = grads_data_vec<S>(Gp, N, pm[d]);
          double sc = 0; for (double v : b) sc = std::max(sc, std::fabs(v));
          for (size_t i = 0; i < a.size(); ++i) cmp("permutation-data-grads", p, a[i], b[i], sc, thr(S) * 1e3, bw);
        }
        double ts = 0; for (int i = 0; i < N; ++i) ts = std::max(ts, std::fabs(Gp.times(i)));
        for (int i = 0; i < N; ++i) cmp("permutation-times", p, Gq.times(i), Gp.times(i), ts + 1e-300, thr(S) * 1e3, dummy);
        cmp("permutation-energy", p, sq.getEnergy(), E, std::fabs(E), 1e-9, dummy);
        c.st.cls(bw ? "permutation: per-coordinate outputs bit-identical" : "permutation: within tolerance only");
      }
    }
  }
  void run_case(int N, const std::vector<double> &T) {
    Prob p; p.N = N; p.T = T; p.t0 = 0.5;
    set_generic_data(p, (uint64_t)c.args.seed * 1000 + N); run_problem(p);
    // one coordinate only non-zero: cross-talk would show as non-zero output elsewhere
    Prob z = p; z.P.setZero(); z.bc = BoundaryConditions<D>(); for (int i = 0; i <= N; ++i) z.P(i, D - 1) = p.P(i, D - 1); z.bc.start_velocity(D - 1) = 1.25; z.bc.end_acceleration(D - 1) = -0.5; z.bc.end_jerk(D - 1) = 0.75;
    run_problem(z);
    run_problem(p, true);
    // mixed boundary data: coordinate 0 generic, the last coordinate at rest in velocity and acceleration at both ends but with non-zero jerk
    if (D > 1) { Prob m = p; for (int side = 0; side < 2; ++side) { bc_ref(m.bc, side, 1)(D - 1) = 0.0; bc_ref(m.bc, side, 2)(D - 1) = 0.0; bc_ref(m.bc, side, 3)(D - 1) = side ? -0.75 : 1.5; } run_problem(m); run_problem(m, true); }
    // the same comparison on objects reached by update(): coordinate 0 lives in a map frame (+2^22), the last coordinate is O(1) and one of
    // its waypoints moves by 2^-22 between the two fits (far below any tolerance taken relative to the WHOLE waypoint matrix), durations,
    // start time and boundary states unchanged: the D-dimensional object and the 1-D objects go through the same two steps (C13-m5)
    if (D > 1) { Prob a = p; for (int i = 0; i <= N; ++i) a.P(i, 0) += 4194304.0; Prob b = a; b.P((N + 1) / 2, D - 1) += 2.384185791015625e-07;
      run_problem(b, false, &a, 1); run_problem(b, false, &a, 2);
      Prob b2 = a; b2.bc.start_velocity(D - 1) += 2.384185791015625e-07; b2.bc.end_velocity(D - 1) -= 2.384185791015625e-07; run_problem(b2, false, &a, 1); }
    // ... and from a fit in which every coordinate but the last is identically zero (planar / hovering axes): whatever an all-zero axis leaves
    // behind in its 1-D object (flags, skipped factorisations) must not survive the re-fit with generic data (seeded changes C13-m9 / C13-m10)
    run_problem(p, false, &z, 1); if (D > 1) run_problem(p, true, &z, 2);
    { Spl<S, D> sz = build<S, D>(z); const auto &C = sz.getTrajectory().getCoefficients(); ++c.st.comparisons; for (int d = 0; d + 1 < D; ++d) if (C.col(d).cwiseAbs().maxCoeff() != 0.0) { fail("cross-talk", z, fmt("coordinate %d has non-zero coefficients although only coordinate %d has data", d, D - 1)); break; } }
  }
};

template <int S> static void explore(Ctx &c, long &id) {
  const bool th = c.args.thorough();
  const int Nmax3 = th ? 8 : 5;
  std::vector<double> sigmas = th ? std::vector<double>{0.125, 1.0, 8.0} : std::vector<double>{1.0};
  for (int N = 1; N <= (th ? 10 : 6); ++N) {
    int base = N <= Nmax3 ? 3 : 2; long nw = ipow(base, N);
    for (long w = 0; w < nw; ++w) for (size_t si = 0; si < sigmas.size(); ++si) {
      long my = id++;
      if (!c.mine(my)) continue;
      std::string unit = str(my);
      if (!c.begin(unit)) continue;
      const double *L = letters(S); std::vector<double> T(N);
      { long ww = w; for (int i = 0; i < N; ++i) { int l = ww % base; ww /= base; T[i] = (base == 3 ? L[l] : (l == 0 ? L[0] : L[2])) * sigmas[si]; } }
      Runner<S> r(c, unit); r.run_case(N, T);
      ++c.st.evaluations;
      std::string key = fmt("S%d/N%d/b%d/w%ld/s%zu", S, N, base, w, si);
      if (!c.st.seen(key) && D >= 2) ++c.st.nontrivial;
      c.st.cls(fmt("%s/%s", order_name(S), D == 1 ? "D=1 column-major" : D <= 3 ? "D<=3" : "D>3"));
      if (my % 401 == 0) c.st.sample(fmt("unit %ld: %s D=%d N=%d word=%s sigma=%g: D-dim spline vs %d one-dimensional splines (coefficients, evaluations, propagateGrad, energy gradients, sums over coordinates); %d coordinate permutations", my, order_name(S), D, N, word_str(N, w, base).c_str(), sigmas[si], D, D > 1 ? D : 0));
    }
  }
}

// the public per-dimension aliases name the class of their order and dimension (seeded change C13-m11: one wrong entry in the alias table)
#define VF_ALIAS2(pre, d) SplineTrajectory::pre##d##D
#define VF_ALIAS(pre, d) VF_ALIAS2(pre, d)
static void check_aliases(Ctx &c, long &id) {
  long my = id++; if (!c.mine(my)) return; std::string unit = str(my); if (!c.begin(unit)) return; ++c.st.evaluations; c.st.seen("aliases"); ++c.st.comparisons;
  const bool ok_c = std::is_same<VF_ALIAS(CubicSpline, VDIM), SplineTrajectory::CubicSplineND<VDIM>>::value, ok_q = std::is_same<VF_ALIAS(QuinticSpline, VDIM), SplineTrajectory::QuinticSplineND<VDIM>>::value,
             ok_s = std::is_same<VF_ALIAS(SepticSpline, VDIM), SplineTrajectory::SepticSplineND<VDIM>>::value, ok_p = std::is_same<VF_ALIAS(PPoly, VDIM), SplineTrajectory::PPolyND<VDIM>>::value,
             ok_d = VDIM != 3 || std::is_same<SplineTrajectory::PPoly, SplineTrajectory::PPolyND<3>>::value;
  if (!(ok_c && ok_q && ok_s && ok_p && ok_d)) c.st.violate(unit, fmt("public alias table, dimension %d: %s%s%s%s%s does not name the class of that order and dimension", VDIM, ok_c ? "" : "CubicSpline<D>D ", ok_q ? "" : "QuinticSpline<D>D ", ok_s ? "" : "SepticSpline<D>D ", ok_p ? "" : "PPoly<D>D ", ok_d ? "" : "PPoly "), {{"what", "alias-table"}});
  c.st.cls("public aliases");
}

int main(int argc, char **argv) {
  Args a = parse_args(argc, argv);
  return supervise(a, [&](Ctx &c) { long id = 0; explore<2>(c, id); explore<3>(c, id); explore<4>(c, id); check_aliases(c, id); c.st.notes["dim"] = str(D); });
}
