// C18 -- graceful degradation of solver accuracy up to duration ratio 100 (E1; R3 residuals of the defining equations).
// -DVDIM=<d>. Violations are aggregated per (order, equation class, ratio, N) so that the known-findings
// region (DESIGN s8, F1) can be matched tuple by tuple; anything outside the region is a VIOLATION.
#include "splinekit.hpp"
#ifndef VDIM
#define VDIM 1
#endif
using namespace vf;
static const int D = VDIM;
typedef Problem<D> Prob;
static const double THR = 1e-3;  // the property's own threshold

struct Agg { long count = 0; double worst = 0; std::string unit, witness; };
static std::map<std::string, Agg> g_agg;  // key "order|class|ratio|N"

template <int S> struct Runner {
  typedef Spl<S, D> Sp;
  static const int M = 2 * S;
  Ctx &c; const std::string &unit; double ratio;
  Runner(Ctx &c_, const std::string &u, double r) : c(c_), unit(u), ratio(r) {}

  void record(const std::string &cls, double res, const Prob &p) {
    ++c.st.comparisons;
    c.st.obs(fmt("%s/%s/r<=32", order_name(S), cls.c_str()), ratio <= 32 ? res : 0.0);
    c.st.obs(fmt("%s/%s/r>32", order_name(S), cls.c_str()), ratio > 32 ? res : 0.0);
    if (res <= THR) return;
    std::string key = fmt("%s|%s|%g|%d", order_name(S), cls.c_str(), ratio, p.N);
    Agg &a = g_agg[key];
    ++a.count;
    if (res > a.worst) { a.worst = res; a.unit = unit; a.witness = describe(p); }
  }

  // route 0: fresh object. route 1: an object first fitted (and queried) with the REVERSED durations and other data, then re-timed through
  // the absolute-time-point overload of update(); the residuals then use the durations the object itself reports (seeded change C18-m5)
  void check(const Prob &p0, int route = 0) {
    const int N = p0.N; Prob p = p0;
    Sp sp = route == 0 ? build<S, D>(p) : [&] { Prob q = p0; for (int i = 0; i < N; ++i) q.T[i] = p0.T[N - 1 - i]; q.P = p0.P * 0.5; q.t0 = p0.t0 + 1.0; Sp s = build<S, D>(q); (void)s.getEnergy(); (void)s.getTrajectory().evaluate(q.t0, 1); s.update(p0.timepoints(), p0.P, p0.bc); return s; }();
    if (route == 1) { if ((int)sp.getTimeSegments().size() != N) { c.st.violate(unit, "re-timed object has the wrong number of segments"); return; } for (int i = 0; i < N; ++i) { p.T[i] = sp.getTimeSegments()[i]; if (!(std::fabs(p.T[i] - p0.T[i]) <= 1e-9 * p0.T[i])) { c.st.violate(unit, fmt("%s: re-timed object reports duration %.17g for segment %d, time points give %.17g", order_name(S), p.T[i], i, p0.T[i])); return; } } }
    const auto &C = sp.getTrajectory().getCoefficients();
    for (int d = 0; d < D; ++d) {
      LD L[16], R[16];
      double worst_interp = 0;
      for (int i = 0; i <= N; ++i) {
        LD want = p.P(i, d);
        if (i < N) { piece_coeffs(C, M, i, d, R); LD sc = std::max(poly_deriv_abs(R, M, 0, (LD)p.T[i]), fabsl(want)); if (sc > 0) worst_interp = std::max(worst_interp, (double)(fabsl(R[0] - want) / sc)); }
        if (i > 0) { piece_coeffs(C, M, i - 1, d, L); LD T = p.T[i - 1]; LD sc = std::max(poly_deriv_abs(L, M, 0, T), fabsl(want)); if (sc > 0) worst_interp = std::max(worst_interp, (double)(fabsl(poly_deriv(L, M, 0, T) - want) / sc)); }
      }
      record("interp", worst_interp, p);
      for (int k = 1; k <= S - 1; ++k) {
        piece_coeffs(C, M, 0, d, R); piece_coeffs(C, M, N - 1, d, L);
        LD ws = bc_ref(p.bc, 0, k)(d), we = bc_ref(p.bc, 1, k)(d), T = p.T[N - 1];
        LD s0 = std::max(poly_deriv_abs(R, M, k, (LD)p.T[0]), fabsl(ws)), s1 = std::max(poly_deriv_abs(L, M, k, T), fabsl(we));
        double r0 = s0 > 0 ? (double)(fabsl(poly_deriv(R, M, k, 0) - ws) / s0) : 0, r1 = s1 > 0 ? (double)(fabsl(poly_deriv(L, M, k, T) - we) / s1) : 0;
        record(fmt("bc%d", k), std::max(r0, r1), p);
      }
      for (int k = 0; k <= 2 * S - 2; ++k) {
        double worst = 0;
        for (int i = 1; i < N; ++i) {
          piece_coeffs(C, M, i - 1, d, L); piece_coeffs(C, M, i, d, R);
          LD T = p.T[i - 1];
          LD left = poly_deriv(L, M, k, T), right = poly_deriv(R, M, k, 0);
          LD sc = std::max(poly_deriv_abs(L, M, k, T), poly_deriv_abs(R, M, k, (LD)p.T[i]));
          if (sc > 0) worst = std::max(worst, (double)(fabsl(left - right) / sc));
        }
        if (N >= 2) record(fmt("cont%d", k), worst, p);
      }
    }
  }

  void run_case(int N, const std::vector<double> &T, double t0) {
    Prob p; p.N = N; p.T = T; p.t0 = t0;
    int nb = nbasis(S, N);
    for (int b = 0; b < nb; ++b) { set_basis_data(p, S, b); check(p); }
    set_generic_data(p, (uint64_t)c.args.seed * 1000 + N); check(p); if (N >= 2) check(p, 1);
    // the same generic data in a frame far from the origin (map coordinates): the defining equations do not care where the origin is
    for (int i = 0; i <= N; ++i) for (int d = 0; d < D; ++d) p.P(i, d) = p.P(i, d) * 4.0 + ((d & 1) ? 482113.0 : 4431207.0);
    check(p);
  }
};

template <int S> static void explore(Ctx &c, long &id) {
  const bool th = c.args.thorough();
  static const double ratios[] = {2, 4, 8, 16, 32, 50, 64, 100};
  const int N2max = th ? 12 : 8, N3max = th ? 7 : 4;
  // overall time scale: the property quantifies over every accepted duration vector (entries >= 1 ms), so the
  // {lo,hi} alphabet is also run at scales 2^-6, 2^6 and 2^10 (two-letter words only; lo*scale stays >= 1 ms)
  static const double scales[] = {1.0, 0.015625, 64.0, 1024.0};
  for (double sc : scales) for (double r : ratios) {
    double lo = sc / std::sqrt(r), hi = sc * std::sqrt(r), mid = sc;
    if (lo < 1e-3) continue;
    for (int base = 2; base <= (sc == 1.0 ? 3 : 2); ++base) for (int N = 2; N <= (base == 2 ? (sc == 1.0 ? N2max : std::min(N2max, 7)) : N3max); ++N) {
      long nw = ipow(base, N);
      for (long w = 0; w < nw; ++w) {
        long my = id++;
        if (!c.mine(my)) continue;
        std::string unit = str(my);
        if (!c.begin(unit)) continue;
        std::vector<double> T(N); bool haslo = false, hashi = false;
        { long ww = w; for (int i = 0; i < N; ++i) { int l = ww % base; ww /= base; T[i] = base == 2 ? (l ? hi : lo) : (l == 0 ? lo : l == 1 ? mid : hi); haslo |= T[i] == lo; hashi |= T[i] == hi; } }
        double eff_ratio = 1.0; { double mn = T[0], mx = T[0]; for (double t : T) { mn = std::min(mn, t); mx = std::max(mx, t); } eff_ratio = std::round(mx / mn * 1e6) / 1e6; }
        Runner<S> rr(c, unit, eff_ratio);
        rr.run_case(N, T, (w % 2) ? 0.0 : -3.5);
        ++c.st.evaluations;
        std::string key = fmt("S%d/sc%g/r%g/b%d/N%d/w%ld", S, sc, r, base, N, w);
        if (!c.st.seen(key) && haslo && hashi) ++c.st.nontrivial;
        c.st.cls(fmt("%s/ratio=%g", order_name(S), r)); if (sc != 1.0) c.st.cls(fmt("%s/scale=%g", order_name(S), sc));
        if (my % 1499 == 0) c.st.sample(fmt("unit %ld: %s D=%d ratio=%g N=%d %d-letter word=%s (durations %s), residuals of interpolation / boundary / continuity 0..%d for all %d basis data + generic", my, order_name(S), D, r, N, base, word_str(N, w, base).c_str(), base == 2 ? "{1/sqrt r, sqrt r}" : "{1/sqrt r, 1, sqrt r}", 2 * S - 2, nbasis(S, N)));
      }
    }
  }
}

int main(int argc, char **argv) {
  Args a = parse_args(argc, argv);
  return supervise(a, [&](Ctx &c) {
    long id = 0; g_agg.clear();
    explore<2>(c, id); explore<3>(c, id); explore<4>(c, id);
    for (auto &kv : g_agg) {
      // key = order|class|ratio|N
      std::vector<std::string> f; { std::stringstream ss(kv.first); std::string t; while (std::getline(ss, t, '|')) f.push_back(t); }
      c.st.violate(kv.second.unit, fmt("%s: scaled residual of %s exceeds 1e-3 at duration ratio %s, N=%s: worst %.3g over %ld failing (case,data,coordinate) triples in this shard; witness %s",
                                      f[0].c_str(), f[1].c_str(), f[2].c_str(), f[3].c_str(), kv.second.worst, kv.second.count, kv.second.witness.c_str()),
                   {{"order", f[0]}, {"class", f[1]}, {"ratio", f[2]}, {"N", f[3]}});
    }
    c.st.notes["dim"] = str(D);
  });
}
