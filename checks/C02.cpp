// C02 -- minimum-energy interpolant / MINCO equivalence (E1; R1 dense solve + R1' KKT cross-check; argument L).
// One TU per spatial dimension: -DVDIM=<d>.
#include "splinekit.hpp"
#ifndef VDIM
#define VDIM 2
#endif
using namespace vf;
static const int D = VDIM;
typedef Problem<D> Prob;

// thresholds (DESIGN s7): >= 1e3 x worst observed on the thorough lattice, recorded in the evidence
static double thr_coef(int S) { return S == 2 ? 3e-9 : S == 3 ? 1e-8 : 1e-6; }  // worst observed 3.0e-12 / 3.0e-12 / 1.1e-10
static double thr_coef_uniform(int S) { return S == 2 ? 1e-12 : S == 3 ? 2e-11 : 2e-10; }  // equal durations: worst observed 5.8e-16 / 1.2e-14 / 1.0e-13 (thorough lattice incl. N = 64, scales 2^-6..2^10)
static double thr_cont(int S) { return S == 2 ? 1e-9 : S == 3 ? 3e-7 : 1e-5; }  // worst observed 3.9e-16 / 1.9e-10 / 3.1e-9

template <int S> struct Runner {
  typedef Spl<S, D> Sp;
  static const int M = 2 * S;
  Ctx &c; const std::string &unit;
  Runner(Ctx &c_, const std::string &u) : c(c_), unit(u) {}
  void fail(const std::string &what, const Prob &p, const std::string &detail) {
    c.st.violate(unit, fmt("%s D=%d: %s: %s | %s", order_name(S), D, what.c_str(), detail.c_str(), describe(p).c_str()),
                 {{"order", order_name(S)}, {"what", what}});
  }

  // ref: 1-D reference splines, column j = basis vector j (j < nb), columns nb..nb+D-1 = generic data of coordinate d
  void check_vs_ref(const Prob &p, const RefSpline<LD> &R, const std::vector<int> &col_of_dim) {
    const int N = p.N;
    Sp sp = build<S, D>(p);
    const auto &C = sp.getTrajectory().getCoefficients();
    for (int v = 0; v < 4; ++v) { Sp h = build_with_history<S, D>(p, v); ++c.st.comparisons; if (!mat_bits_equal(h.getTrajectory().getCoefficients(), C) || h.getTrajectory().getBreakpoints() != sp.getTrajectory().getBreakpoints()) { fail("coeffs-after-history", p, "a spline updated from a larger, fully queried problem differs from a fresh one"); return; } }
    bool uniform = true; for (int i = 1; i < N; ++i) uniform = uniform && std::fabs(p.T[i] - p.T[0]) <= 1e-6 * p.T[0];   // equal (or nearly equal) durations: the systems are perfectly conditioned
    // a trajectory reference taken BEFORE an update publishes the new minimiser afterwards, with no accessor call in between (update() refreshes
    // the published trajectory in place; seeded change C02-m10: lazy re-publication on the next accessor call)
    { Prob q = p; for (double &t : q.T) t *= 0.75; q.P *= 0.5; Sp hs = build<S, D>(q); const auto &held = hs.getTrajectory(); (void)held.evaluate(q.t0, 1); hs.update(p.T, p.P, p.t0, p.bc); ++c.st.comparisons;
      if (!mat_bits_equal(held.getCoefficients(), C) || held.getBreakpoints() != sp.getTrajectory().getBreakpoints()) { fail("coeffs-through-held-reference", p, "a trajectory reference obtained before update() does not show the new spline"); return; } }
    for (int d = 0; d < D; ++d) {
      int col = col_of_dim[d];
      // The solvers are backward stable: their forward error is relative to the magnitude of the whole solution for
      // this coordinate, not to the (possibly exponentially decayed) magnitude of one far-away piece. gscale = largest
      // |c_k T^k| over all pieces of the reference (position units). The per-piece figure is recorded for information.
      LD gscale = 0;
      for (int i = 0; i < N; ++i) { LD T = p.T[i], tp = 1; for (int k = 0; k < M; ++k) { gscale = std::max(gscale, fabsl(R.C[i * M + k][col]) * tp); tp *= T; } }
      for (int i = 0; i < N; ++i) {
        LD T = p.T[i], tp = 1, scale = 0;
        LD refc[16], libc[16];
        for (int k = 0; k < M; ++k) { refc[k] = R.C[i * M + k][col]; libc[k] = C(i * M + k, d); scale = std::max(scale, fabsl(refc[k]) * tp); tp *= T; }
        if (gscale == 0) { // the reference spline is identically zero: the library's must be too
          tp = 1; LD ls = 0; for (int k = 0; k < M; ++k) { ls = std::max(ls, fabsl(libc[k]) * tp); tp *= T; }
          ++c.st.comparisons;
          if (ls > 0) fail("coef-vs-R1", p, fmt("segment %d dim %d: reference is zero, library piece is not (%.3Lg)", i, d, ls));
          continue;
        }
        tp = 1;
        for (int k = 0; k < M; ++k) {
          LD e = fabsl(libc[k] - refc[k]) * tp; tp *= T;
          double res = (double)(e / gscale);
          ++c.st.comparisons;
          c.st.obs(std::string("coef_vs_R1/") + order_name(S), res);
          if (scale > 0) c.st.obs(std::string("info:coef_vs_R1_piece_scaled/") + order_name(S), (double)(e / scale));
          if (uniform) { c.st.obs(std::string("coef_vs_R1(uniform durations)/") + order_name(S), res); if (res > thr_coef_uniform(S)) { fail("coef-vs-R1(uniform durations)", p, fmt("segment %d coeff %d dim %d: lib %.17Lg ref %.17Lg scaled err %.3g (tight threshold for equal durations)", i, k, d, libc[k], refc[k], res)); break; } }
          if (res > thr_coef(S)) { fail("coef-vs-R1", p, fmt("segment %d coeff %d dim %d: lib %.17Lg ref %.17Lg scaled err %.3g", i, k, d, libc[k], refc[k], res)); break; }
        }
      }
      // continuity of derivatives 0..2s-2 at interior knots, from the published coefficients
      for (int i = 1; i < N; ++i) {
        LD L[16], Rr[16]; piece_coeffs(C, M, i - 1, d, L); piece_coeffs(C, M, i, d, Rr);
        LD T = p.T[i - 1];
        for (int k = 0; k <= 2 * S - 2; ++k) {
          LD left = poly_deriv(L, M, k, T), right = poly_deriv(Rr, M, k, 0);
          LD scale = std::max(std::max(poly_deriv_abs(L, M, k, T), poly_deriv_abs(Rr, M, k, (LD)p.T[i])), fabsl(right));
          double res = scale > 0 ? (double)(fabsl(left - right) / scale) : 0.0;
          ++c.st.comparisons;
          c.st.obs(fmt("cont/%s", order_name(S)), res);
          if (res > thr_cont(S)) fail("continuity", p, fmt("knot %d deriv %d dim %d: left %.17Lg right %.17Lg res %.3g", i, k, d, left, right, res));
        }
      }
    }
  }

  void run_case(int N, const std::vector<double> &T, bool kkt, double t0) {
    Prob p; p.N = N; p.T = T; p.t0 = t0;
    const int nb = nbasis(S, N), ncol = nb + D;
    // reference: one elimination, all right-hand sides
    Prob g = p; set_generic_data(g, (uint64_t)c.args.seed * 1000 + N);
    std::vector<LD> TT(N); for (int i = 0; i < N; ++i) TT[i] = T[i];
    std::vector<std::vector<LD>> P(N + 1, std::vector<LD>(ncol, 0)), bs(3, std::vector<LD>(ncol, 0)), be(3, std::vector<LD>(ncol, 0));
    for (int b = 0; b < nb; ++b) {
      if (b <= N) P[b][b] = 1; else { int r = b - (N + 1), side = r / (S - 1), k = r % (S - 1) + 1; (side == 0 ? bs : be)[k - 1][b] = 1; }
    }
    for (int d = 0; d < D; ++d) {
      for (int i = 0; i <= N; ++i) P[i][nb + d] = g.P(i, d);
      for (int k = 1; k <= S - 1; ++k) { bs[k - 1][nb + d] = bc_ref(g.bc, 0, k)(d); be[k - 1][nb + d] = bc_ref(g.bc, 1, k)(d); }
    }
    RefSpline<LD> R = ref_solve<LD>(S, TT, P, bs, be);
    std::vector<int> cols(D);
    for (int b = 0; b < nb; ++b) {
      set_basis_data(p, S, b);
      for (int d = 0; d < D; ++d) cols[d] = (b + d) % nb;
      check_vs_ref(p, R, cols);
    }
    for (int d = 0; d < D; ++d) cols[d] = nb + d;
    check_vs_ref(g, R, cols);
    // R1' (the optimisation problem) vs R1 (its optimality conditions): validates the oracle itself
    if (kkt) {
      RefSpline<LD> K = kkt_solve(S, TT, P, bs, be);
      if (K.N < 0) { fail("oracle", p, "KKT system singular"); return; }
      for (int col = 0; col < ncol; ++col) for (int i = 0; i < N; ++i) {
        LD tp = 1, scale = 0; for (int k = 0; k < M; ++k) { scale = std::max(scale, fabsl(R.C[i * M + k][col]) * tp); tp *= TT[i]; }
        if (scale == 0) continue; tp = 1;
        for (int k = 0; k < M; ++k) {
          double res = (double)(fabsl(K.C[i * M + k][col] - R.C[i * M + k][col]) * tp / scale); tp *= TT[i];
          ++c.st.comparisons; c.st.obs(fmt("R1prime_vs_R1/%s", order_name(S)), res);
          if (res > 1e-9) fail("oracle", p, fmt("reference models disagree: KKT minimiser vs optimality-condition solve, seg %d coeff %d col %d res %.3g", i, k, col, res));
        }
      }
      c.st.cls("oracle cross-check R1' vs R1");
    }
  }
};

template <int S> static void explore(Ctx &c, long &id) {
  const bool th = c.args.thorough();
  const int Nmax3 = th ? 8 : 5;
  std::vector<double> sigmas = th ? std::vector<double>{0.125, 1.0, 8.0} : std::vector<double>{1.0};
  // beyond the stated scale range (0.1..10 s): the normalised metrics are scale-free and the pinned tree meets the same
  // thresholds there, so small-N words are also run at extreme overall scales (catches absolute-threshold slips)
  const std::vector<double> extreme = {0.015625, 64.0, 1024.0};
  const size_t nreg = sigmas.size(); const int Nextreme = th ? 5 : 3;
  sigmas.insert(sigmas.end(), extreme.begin(), extreme.end());
  for (int alpha = 0; alpha < 3; ++alpha) {
    if (alpha == 1 && !th) continue;
    double L[3]; for (int i = 0; i < 3; ++i) L[i] = letters(S)[i];
    if (alpha == 1) { Lcg g((uint64_t)c.args.seed * 77 + S); L[0] *= 1.0 + (1 + g.next() % 1000) / 16384.0; L[1] *= 1.0 + (1 + g.next() % 1000) / 16001.0; }
    // alphabet 2 (both tiers): NEARLY EQUAL letters 1, 1+2^-22, 1-2^-21 (neighbouring durations that differ by less than 1e-6 but are
    // not bit-identical): a tolerance used where exact equality was meant shows up here (seeded change C01-m4)
    if (alpha == 2) { L[0] = 1.0 - 4.76837158203125e-07; L[1] = 1.0; L[2] = 1.0 + 2.384185791015625e-07; }
    int nmax = alpha == 1 ? std::min(Nmax3, 6) : alpha == 2 ? std::min(Nmax3, th ? 6 : 4) : Nmax3;
    for (int N = 1; N <= (th && alpha == 0 ? 10 : nmax); ++N) {
      int base = N <= nmax ? 3 : 2;
      long nw = ipow(base, N);
      for (long w = 0; w < nw; ++w) for (size_t si = 0; si < sigmas.size(); ++si) {
        long my = id++;
        if (si >= nreg && (N > Nextreme || alpha >= 1)) continue;
        if (!c.mine(my)) continue;
        std::string unit = str(my);
        if (!c.begin(unit)) continue;
        std::vector<double> T(N);
        { long ww = w; for (int i = 0; i < N; ++i) { int l = ww % base; ww /= base; T[i] = (base == 3 ? L[l] : (l == 0 ? L[0] : L[2])) * sigmas[si]; } }
        Runner<S> r(c, unit);
        bool kkt = (N <= (th ? 4 : 3)) && alpha == 0 && D <= 2 && si < nreg;
        // start-time alphabet; letter 3 is a map-frame start (1.7e9 + 0.3) with the durations x 0.7, so that start + durations is NOT
        // exact in double: a solver that re-derives segment lengths from the absolute knots is off by ~2e-7 (seeded change C02-m5)
        const int tl = (int)((w + N) % 4); double t0v = tl == 0 ? 0.0 : tl == 1 ? -2.5 : tl == 2 ? 1024.125 : 1.7e9 + 0.3;
        if (tl == 3) for (double &t : T) t *= 0.7;
        r.run_case(N, T, kkt, t0v);
        ++c.st.evaluations;
        std::string key = fmt("S%d/a%d/N%d/w%ld/s%zu", S, alpha, N, w, si);
        if (!c.st.seen(key) && N >= 2) ++c.st.nontrivial;
        c.st.cls(fmt("%s/%s", order_name(S), N == 1 ? "N=1(no system)" : N == 2 ? "N=2(single block)" : N == 3 ? "N=3(first+last block)" : "N>=4(interior blocks)"));
        if (my % 499 == 0) c.st.sample(fmt("unit %ld: %s D=%d alphabet=%d N=%d word=%s sigma=%g: library coefficients vs dense long-double solve for all %d basis data vectors + generic data; continuity of derivatives 0..%d at every interior knot", my, order_name(S), D, alpha, N, word_str(N, w, base).c_str(), sigmas[si], nbasis(S, N), 2 * S - 2));
      }
    }
  }
}

// long splines: segment counts around powers of two (blocked / unrolled loops change behaviour exactly there), uniform and alternating durations
template <int S> static void explore_long(Ctx &c, long &id) {
  for (int N : {31, 32, 33, 64}) for (int pat = 0; pat < 2; ++pat) {
    long my = id++; if (!c.mine(my)) continue; std::string unit = str(my); if (!c.begin(unit)) continue;
    const double *L = letters(S); std::vector<double> T(N); for (int i = 0; i < N; ++i) T[i] = pat == 0 ? L[1] : ((i & 1) ? L[1] : L[1] * 0.5);
    Runner<S> r(c, unit); r.run_case(N, T, false, pat ? -2.5 : 1024.125);
    ++c.st.evaluations; if (!c.st.seen(fmt("long/S%d/N%d/%d", S, N, pat))) ++c.st.nontrivial; c.st.cls(fmt("%s/long (N around 32, 64)", order_name(S)));
    if (N == 32) c.st.sample(fmt("unit %ld: %s D=%d N=%d %s durations: library coefficients vs dense long-double solve for all %d basis data vectors + generic data", my, order_name(S), D, N, pat ? "alternating" : "uniform", nbasis(S, N)));
  }
}

int main(int argc, char **argv) {
  Args a = parse_args(argc, argv);
  return supervise(a, [&](Ctx &c) {
    long id = 0;
    explore<2>(c, id); explore<3>(c, id); explore<4>(c, id);
    explore_long<2>(c, id); explore_long<3>(c, id); explore_long<4>(c, id);
    c.st.notes["dim"] = str(D);
  });
}
