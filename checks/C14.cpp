// C14 -- time shift / translation / scaling / time reversal (E1, metamorphic relations; no reference model needed).
// -DVDIM=<d>
#include "splinekit.hpp"
#ifndef VDIM
#define VDIM 2
#endif
using namespace vf;
static const int D = VDIM;
typedef Problem<D> Prob;
static double thr(int S) { return S == 2 ? 3e-9 : S == 3 ? 1e-8 : 1e-6; }  // reversal uses a different elimination order: solver tolerance

template <int S> struct Runner {
  typedef Spl<S, D> Sp;
  typedef typename Sp::MatrixType Mat;
  typedef typename Sp::Gradients Grads;
  static const int M = 2 * S;
  Ctx &c; const std::string &unit;
  Runner(Ctx &c_, const std::string &u) : c(c_), unit(u) {}
  void fail(const std::string &what, const Prob &p, const std::string &detail) {
    c.st.violate(unit, fmt("%s D=%d: %s: %s | %s", order_name(S), D, what.c_str(), detail.c_str(), describe(p).c_str()), {{"order", order_name(S)}, {"what", what}});
  }
  // flatten a Gradients struct: times, then per coordinate the data vector
  static std::vector<double> flat(const Grads &g, int N) { std::vector<double> v; for (int i = 0; i < N; ++i) v.push_back(g.times(i)); for (int d = 0; d < D; ++d) { auto x = grads_data_vec<S>(g, N, d); v.insert(v.end(), x.begin(), x.end()); } return v; }
  bool expect_bits(const char *what, const Prob &p, const std::vector<double> &got, const std::vector<double> &want) {
    ++c.st.comparisons;
    if (got.size() != want.size()) { fail(what, p, "size mismatch"); return false; }
    for (size_t i = 0; i < got.size(); ++i) if (!bits_equal(got[i], want[i]) && !(got[i] == 0.0 && want[i] == 0.0)) { fail(what, p, fmt("entry %zu: got %.17g want %.17g (relation must be exact)", i, got[i], want[i])); return false; }
    return true;
  }
  static std::vector<double> matvec(const Mat &m) { return std::vector<double>(m.data(), m.data() + m.size()); }

  void run_problem(const Prob &p, bool dyadic_exact) {
    const int N = p.N, n = M * N;
    Sp sp = build<S, D>(p);
    const Mat C = sp.getTrajectory().getCoefficients();
    const double E = sp.getEnergy();
    const Grads EG = sp.getEnergyGrad();
    Lcg g((uint64_t)c.args.seed + 5);
    Mat gdC(n, D); Eigen::VectorXd gdT(N); for (int r = 0; r < n; ++r) for (int d = 0; d < D; ++d) gdC(r, d) = g.dyadic(); for (int i = 0; i < N; ++i) gdT(i) = g.dyadic();
    const Grads PG = sp.propagateGrad(gdC, gdT);
    const Grads PGE = sp.propagateGrad(sp.getEnergyPartialGradByCoeffs(), sp.getEnergyPartialGradByTimes());
    // ---- start-time shift: polynomials unchanged (bitwise), knot times shifted ----
    for (double sh : {3.25, -1024.5, 1.7e9 + 0.3}) {
      if (dyadic_exact && sh > 1e9) continue;   // the far shift is used with the non-dyadic durations below
      Prob q = p; q.t0 = p.t0 + sh; Sp s2 = build<S, D>(q);
      expect_bits("shift-coeffs", p, matvec(s2.getTrajectory().getCoefficients()), matvec(C));
      ++c.st.comparisons;
      for (int i = 0; i <= N; ++i) { double want = sp.getCumulativeTimes()[i] + sh; double got = s2.getCumulativeTimes()[i]; double tol = dyadic_exact ? 0.0 : 4 * N * (std::nextafter(std::fabs(want) + std::fabs(sh), INFINITY) - (std::fabs(want) + std::fabs(sh))); if (std::fabs(got - want) > tol) { fail("shift-knots", p, fmt("knot %d: %.17g vs %.17g", i, got, want)); break; } }
      expect_bits("shift-energy", p, {s2.getEnergy()}, {E});
      expect_bits("shift-energy-grad", p, flat(s2.getEnergyGrad(), N), flat(EG, N));
      expect_bits("shift-propagate", p, flat(s2.propagateGrad(gdC, gdT), N), flat(PG, N));
      expect_bits("shift-energy-partials", p, matvec(s2.getEnergyPartialGradByCoeffs()), matvec(sp.getEnergyPartialGradByCoeffs()));
      { Eigen::VectorXd a = s2.getEnergyPartialGradByTimes(), b2 = sp.getEnergyPartialGradByTimes(); expect_bits("shift-energy-partials", p, std::vector<double>(a.data(), a.data() + a.size()), std::vector<double>(b2.data(), b2.data() + b2.size())); }
      // the curve as a function of (t - start): values of every derivative order, the sampled arc length through the default-range
      // overload and the time grid relative to the start are unchanged -- bit-identical when all the sums are exact (dyadic case)
      if (dyadic_exact) {
        const auto &t1 = sp.getTrajectory(); const auto &t2 = s2.getTrajectory(); const double dur = t1.getDuration();
        ++c.st.comparisons;
        if (!bits_equal(t2.getDuration(), dur) || !bits_equal(t2.getStartTime(), t1.getStartTime() + sh) || !bits_equal(t2.getEndTime(), t1.getEndTime() + sh)) fail("shift-range", p, fmt("start/end/duration %.17g/%.17g/%.17g", t2.getStartTime(), t2.getEndTime(), t2.getDuration()));
        for (int i = 0; i <= 8; ++i) { const double u = dur * i / 8.0;  // dyadic fractions of a dyadic duration: exact
          for (int k = 0; k < M; k += (i & 1) ? 2 : 1) { auto a = t1.evaluate(t1.getStartTime() + u, k), b = t2.evaluate(t2.getStartTime() + u, k); if (!bits_equal(a.data(), b.data(), D)) { fail("shift-evaluate", p, fmt("derivative %d at start + %.17g differs after the shift by %.17g", k, u, sh)); i = 9; break; } } }
        int e2; (void)std::frexp(dur / 12.0, &e2); const double dt = std::ldexp(1.0, e2 - 1);   // dyadic step, 12..24 samples
        expect_bits("shift-length", p, {t2.getTrajectoryLength(dt), t2.getTrajectoryLength(t2.getStartTime(), t2.getEndTime(), dt)}, {t1.getTrajectoryLength(dt), t1.getTrajectoryLength(t1.getStartTime(), t1.getEndTime(), dt)});
        { std::vector<double> g1 = t1.generateTimeSequence(dt), g2 = t2.generateTimeSequence(dt); for (double &v : g1) v += sh; expect_bits("shift-time-grid", p, g2, g1); }
      }
      // the same shift applied by update() on an existing object (same N, nothing resized) gives the same trajectory
      { Sp s3 = sp; (void)s3.getTrajectory().evaluate(s3.getStartTime(), 0); s3.update(q.T, q.P, q.t0, q.bc); ++c.st.comparisons;
        if (!mat_bits_equal(s3.getTrajectory().getCoefficients(), s2.getTrajectory().getCoefficients()) || s3.getTrajectory().getBreakpoints() != s2.getTrajectory().getBreakpoints() || s3.getCumulativeTimes() != s2.getCumulativeTimes() || s3.getStartTime() != s2.getStartTime() || s3.getEndTime() != s2.getEndTime())
          fail("shift-by-update", p, fmt("update() of an existing spline to start time %.17g differs from a fresh spline at that start time", q.t0));
        for (int i = 0; i <= N; ++i) { auto a = s3.getTrajectory().evaluate(s2.getCumulativeTimes()[i], 1), b = s2.getTrajectory().evaluate(s2.getCumulativeTimes()[i], 1); if (!bits_equal(a.data(), b.data(), D)) { fail("shift-by-update", p, "evaluation differs"); break; } } }
    }
    if (!dyadic_exact) return;
    // ---- translation by a dyadic vector: row c0 translated, everything else unchanged ----
    {
      Prob q = p; typename Prob::Vec tv; for (int d = 0; d < D; ++d) tv(d) = 3.5 - 1.25 * d;
      for (int i = 0; i <= N; ++i) q.P.row(i) += tv.transpose();
      Sp s2 = build<S, D>(q); const Mat &C2 = s2.getTrajectory().getCoefficients();
      Mat want = C; for (int i = 0; i < N; ++i) want.row(i * M) += tv.transpose();
      // dyadic data + dyadic translation: point differences are exact, so the relation is exact; assert with the solver
      // tolerance (a refactoring may legitimately use the points themselves), record bit-identity as an outcome class
      bool bw = mat_bits_equal(C2, want) && bits_equal(s2.getEnergy(), E);
      c.st.cls(bw ? "translation: bit-identical" : "translation: within tolerance only");
      double gs = 0; for (int i = 0; i < N; ++i) { double tp = 1; for (int k = 1; k < M; ++k) { tp *= p.T[i]; gs = std::max(gs, C.row(i * M + k).cwiseAbs().maxCoeff() * tp); } }
      gs = std::max(gs, 1e-300);
      double worst = 0; for (int i = 0; i < N; ++i) { double tp = 1; for (int k = 0; k < M; ++k) { worst = std::max(worst, (C2.row(i * M + k) - want.row(i * M + k)).cwiseAbs().maxCoeff() * tp / gs); tp *= p.T[i]; } }
      ++c.st.comparisons; c.st.obs(fmt("translation/%s", order_name(S)), worst);
      if (worst > thr(S)) fail("translation-coeffs", p, fmt("normalised deviation %.3g", worst));
      double er = E != 0 ? std::fabs(s2.getEnergy() - E) / std::fabs(E) : std::fabs(s2.getEnergy());
      ++c.st.comparisons; if (er > 1e-7) fail("translation-energy", p, fmt("%.17g vs %.17g", s2.getEnergy(), E));
      std::vector<double> a = flat(s2.getEnergyGrad(), N), b = flat(EG, N); double sc = 0, e2 = 0; for (size_t i = 0; i < a.size(); ++i) { sc = std::max(sc, std::fabs(b[i])); e2 = std::max(e2, std::fabs(a[i] - b[i])); }
      ++c.st.comparisons; if (sc > 0 && e2 / sc > thr(S) * 1e3) fail("translation-energy-grad", p, fmt("%.3g", e2 / sc));
    }
    // ---- data x 2^k: coefficients x 2^k, energy x 4^k, gradients x 2^k (exact) ----
    for (int k : {-3, 5}) {
      double a = std::ldexp(1.0, k);
      Prob q = p; q.P *= a; for (int side = 0; side < 2; ++side) for (int kk = 1; kk <= 3; ++kk) bc_ref(q.bc, side, kk) *= a;
      Sp s2 = build<S, D>(q);
      Mat want = C * a;
      expect_bits("scale-data-coeffs", p, matvec(s2.getTrajectory().getCoefficients()), matvec(want));
      expect_bits("scale-data-energy", p, {s2.getEnergy()}, {E * a * a});
      std::vector<double> w = flat(EG, N); for (size_t i = 0; i < w.size(); ++i) w[i] *= (i < (size_t)N ? a * a : a);
      expect_bits("scale-data-energy-grad", p, flat(s2.getEnergyGrad(), N), w);
    }
    // ---- durations x b=2^k, boundary derivative j x b^-j: c_j x b^-j, energy x b^-(2s-1), exact ----
    // (k = 10 / -6 carry the lattice to durations of thousands of seconds / milliseconds: an absolute tolerance breaks exact homogeneity there)
    for (int k : {-2, 3, 10, -6}) {
      double b = std::ldexp(1.0, k);
      Prob q = p; for (double &t : q.T) t *= b; q.t0 = p.t0;
      for (int side = 0; side < 2; ++side) for (int kk = 1; kk <= 3; ++kk) bc_ref(q.bc, side, kk) *= std::ldexp(1.0, -k * kk);
      Sp s2 = build<S, D>(q);
      Mat want = C; for (int i = 0; i < N; ++i) for (int j = 0; j < M; ++j) want.row(i * M + j) *= std::ldexp(1.0, -k * j);
      expect_bits("scale-time-coeffs", p, matvec(s2.getTrajectory().getCoefficients()), matvec(want));
      expect_bits("scale-time-energy", p, {s2.getEnergy()}, {E * std::ldexp(1.0, -k * (2 * S - 1))});
      // the reparametrised curve itself, sampled on a coarse grid (steps that jump over whole segments) through the plain and the HINTED
      // overload with one carried hint: x_scaled(start + b u) = x(start + u), derivative k scaled by b^-k -- exact for powers of two
      { const auto &t1 = sp.getTrajectory(); const auto &t2 = s2.getTrajectory(); const double dur = t1.getDuration(); int hint = 0; bool oks = true; ++c.st.comparisons;
        for (int i = 0; oks && i <= 8; ++i) { const double u = dur * i / 8.0; for (int kk = 0; oks && kk <= 2; ++kk) { auto a = t1.evaluate(t1.getStartTime() + u, kk); auto b1 = t2.evaluate(t2.getStartTime() + b * u, kk); auto b2 = t2.evaluate(t2.getStartTime() + b * u, &hint, kk);
            for (int d = 0; d < D; ++d) { const double want = a(d) * std::ldexp(1.0, -k * kk); if (!(bits_equal(b1(d), want) || (b1(d) == 0.0 && want == 0.0)) || !bits_equal(b2(d), b1(d))) { fail("scale-time-curve", p, fmt("durations x 2^%d: derivative %d at start + %.17g: plain %.17g, hinted (carried hint, now %d) %.17g, expected %.17g", k, kk, b * u, b1(d), hint, b2(d), want)); oks = false; break; } } } } }
      // gradients: dE/dT x b^-2s; dE/dP x b^-(2s-1); dE/d(deriv j) x b^-(2s-1)+j
      Grads g2 = s2.getEnergyGrad(); std::vector<double> got = flat(g2, N), w = flat(EG, N);
      const int nb = nbasis(S, N);
      for (int i = 0; i < N; ++i) w[i] *= std::ldexp(1.0, -k * 2 * S);
      for (int d = 0; d < D; ++d) for (int bb = 0; bb < nb; ++bb) { int j = bb <= N ? 0 : ((bb - (N + 1)) % (S - 1)) + 1; w[N + d * nb + bb] *= std::ldexp(1.0, -k * (2 * S - 1) + k * j); }
      expect_bits("scale-time-energy-grad", p, got, w);
    }
    // ---- time reversal ----
    {
      Prob q = p; for (int i = 0; i < N; ++i) q.T[i] = p.T[N - 1 - i]; for (int i = 0; i <= N; ++i) q.P.row(i) = p.P.row(N - i);
      for (int kk = 1; kk <= 3; ++kk) { double sgn = (kk & 1) ? -1.0 : 1.0; bc_ref(q.bc, 0, kk) = sgn * bc_ref(p.bc, 1, kk); bc_ref(q.bc, 1, kk) = sgn * bc_ref(p.bc, 0, kk); }
      Sp s2 = build<S, D>(q);
      const Mat &C2 = s2.getTrajectory().getCoefficients();
      // p_rev(t) on piece i' = N-1-i at local time u equals p on piece i at local time T_i - u: compare at a probe grid, all derivative orders < M
      double gs = 0; for (int i = 0; i < N; ++i) { double tp = 1; for (int k = 0; k < M; ++k) { gs = std::max(gs, C.row(i * M + k).cwiseAbs().maxCoeff() * tp); tp *= p.T[i]; } } gs = std::max(gs, 1e-300);
      double worst = 0;
      for (int i = 0; i < N; ++i) for (int d = 0; d < D; ++d) {
        LD a[16], b[16]; piece_coeffs(C, M, i, d, a); piece_coeffs(C2, M, N - 1 - i, d, b);
        for (double fr : {0.0, 0.25, 0.5, 1.0}) for (int k = 0; k <= 2 * S - 2; ++k) {
          LD T = p.T[i], u = fr * T; LD v1 = poly_deriv(a, M, k, T - u), v2 = poly_deriv(b, M, k, u) * ((k & 1) ? -1 : 1);
          LD sc = gs; for (int q2 = 0; q2 < k; ++q2) sc /= T;
          worst = std::max(worst, (double)(fabsl(v1 - v2) / sc));
        }
      }
      ++c.st.comparisons; c.st.obs(fmt("reversal-curve/%s", order_name(S)), worst);
      if (worst > thr(S) * 10) fail("reversal-curve", p, fmt("normalised deviation %.3g", worst));
      double er = E != 0 ? std::fabs(s2.getEnergy() - E) / std::fabs(E) : std::fabs(s2.getEnergy());
      ++c.st.comparisons; c.st.obs(fmt("reversal-energy/%s", order_name(S)), er); if (er > 1e-7) fail("reversal-energy", p, fmt("%.17g vs %.17g", s2.getEnergy(), E));
      // mirrored gradients (closed form, and the partials propagated through the adjoint)
      for (int route = 0; route < 2; ++route) {
      Grads g2 = route == 0 ? s2.getEnergyGrad() : s2.propagateGrad(s2.getEnergyPartialGradByCoeffs(), s2.getEnergyPartialGradByTimes()); const int nb = nbasis(S, N);
      const Grads &EGr = route == 0 ? EG : PGE;
      double sc = 0, e2 = 0, sct = 0, e2t = 0;
      for (int i = 0; i < N; ++i) { sct = std::max(sct, std::fabs(EGr.times(i)) * p.T[i]); e2t = std::max(e2t, std::fabs(g2.times(N - 1 - i) - EGr.times(i)) * p.T[i]); }
      for (int d = 0; d < D; ++d) { auto a = grads_data_vec<S>(g2, N, d), b = grads_data_vec<S>(EGr, N, d);
        for (int bb = 0; bb < nb; ++bb) { int mb; double sgn = 1; double cs = 1; if (bb <= N) mb = N - bb; else { int r = bb - (N + 1), side = r / (S - 1), kk = r % (S - 1) + 1; mb = (N + 1) + (1 - side) * (S - 1) + (kk - 1); sgn = (kk & 1) ? -1.0 : 1.0; double Tadj = side == 0 ? p.T[0] : p.T[N - 1]; for (int q2 = 0; q2 < kk; ++q2) cs *= Tadj; }
          sc = std::max(sc, std::fabs(b[bb]) * cs); e2 = std::max(e2, std::fabs(a[mb] * sgn - b[bb]) * cs); } }
      double G = std::max(std::max(sc, sct), std::fabs(E));
      double res = G > 0 ? std::max(e2, e2t) / G : 0; ++c.st.comparisons; c.st.obs(fmt("reversal-energy-grad/%s", order_name(S)), res);
      if (res > thr(S) * 10) fail(route == 0 ? "reversal-energy-grad" : "reversal-propagated-grad", p, fmt("normalised deviation %.3g", res));
      }
    }
  }
  void run_case(int N, const std::vector<double> &T) {
    Prob p; p.N = N; p.T = T; p.t0 = 0.5;
    int nb = nbasis(S, N);
    for (int b = 0; b < nb; ++b) { set_basis_data(p, S, b); run_problem(p, true); }
    set_generic_data(p, (uint64_t)c.args.seed * 1000 + N); run_problem(p, true);
    // non-dyadic durations (x 0.7) and a start time far from zero: the polynomials must not depend on the start time at all (bitwise),
    // which is only a meaningful statement when start + durations is NOT exactly representable
    { Prob q = p; for (double &t : q.T) t *= 0.7; q.t0 = 0.3; run_problem(q, false); set_basis_data(q, S, N % nb); run_problem(q, false); }
  }
};

template <int S> static void explore(Ctx &c, long &id) {
  const bool th = c.args.thorough();
  const int Nmax3 = th ? 8 : 4;
  std::vector<double> sigmas = th ? std::vector<double>{0.125, 1.0, 8.0} : std::vector<double>{1.0};
  for (int N = 1; N <= (th ? 10 : 6); ++N) {
    int base = N <= Nmax3 ? 3 : 2; long nw = ipow(base, N);
    for (long w = 0; w < nw; ++w) for (size_t si = 0; si < sigmas.size(); ++si) {
      long my = id++;
      if (!c.mine(my)) continue;
      std::string unit = str(my);
      if (!c.begin(unit)) continue;
      const double *L = letters(S); std::vector<double> T(N);
      { long ww = w; for (int i = 0; i < N; ++i) { int l = ww % base; ww /= base; T[i] = (base == 3 ? L[l] : (l == 0 ? L[0] : L[2])) * sigmas[si]; } }
      Runner<S> r(c, unit); r.run_case(N, T);
      ++c.st.evaluations;
      std::string key = fmt("S%d/N%d/b%d/w%ld/s%zu", S, N, base, w, si);
      if (!c.st.seen(key)) { bool pal = true; for (int i = 0; i < N; ++i) pal = pal && T[i] == T[N - 1 - i]; if (!pal || N >= 2) ++c.st.nontrivial; }
      c.st.cls(fmt("%s/%s", order_name(S), N == 1 ? "N=1" : N == 2 ? "N=2" : N == 3 ? "N=3" : "N>=4"));
      if (my % 211 == 0) c.st.sample(fmt("unit %ld: %s D=%d N=%d word=%s sigma=%g: start shift x2, translation, data x 2^{-3,5}, durations x 2^{-6,-2,3,10}, time reversal for %d basis data + generic", my, order_name(S), D, N, word_str(N, w, base).c_str(), sigmas[si], nbasis(S, N)));
    }
  }
}

int main(int argc, char **argv) {
  Args a = parse_args(argc, argv);
  return supervise(a, [&](Ctx &c) { long id = 0; explore<2>(c, id); explore<3>(c, id); explore<4>(c, id); c.st.notes["dim"] = str(D); });
}
