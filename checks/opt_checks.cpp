// opt_checks.cpp -- E1 checks of SplineOptimizer: C07 (gradient = gradient of the returned cost), C08 (cost decomposition and
// sample contents), C09-static (layout / dimension / round trip), C19 (checkGradients verdict).
// -DVDIM=<d> -DVORDER=2|3|4 -DVPROP=7|8|9|19
#include "optkit.hpp"
#ifndef VDIM
#define VDIM 2
#endif
#ifndef VORDER
#define VORDER 3
#endif
#ifndef VPROP
#define VPROP 7
#endif
using namespace vf;
static const int D = VDIM, S = VORDER, M = 2 * S, ORD = 2 * S - 1;
typedef Spl<S, D> Sp;
typedef Problem<D> Prob;

struct Cfg { unsigned mask = 0; int N = 2; int tm = 0, sm = 0; double rho = 0.25; int K = 3; int fmode = 8; int t0i = 0; int tcmode = 1; int wcmode = 1; bool far = false; bool origin = false; bool ms1 = false;   // ms1: the first reference duration is exactly the 1 ms acceptance limit
  std::string str() const { static const char *tmn[] = {"QuadInv", "Identity", "AffSq(user)"}, *smn[] = {"IdentitySpatial", "Scale(user)", "Proj(user)", "Tanh(user)"};
    return fmt("%s D=%d N=%d flags=0x%02x timemap=%s spatialmap=%s rho=%g K=%d running=%s t0#%d timecost#%d%s%s%s", order_name(S), D, N, mask, tmn[tm], smn[sm], rho, K, RunCost<D>::mode_name(fmode), t0i, tcmode, far ? " far-frame(+3200,-2600,..)" : "", ms1 ? " T_0 = 1 ms" : "", origin ? " waypoints 0,1 at the origin, zero start velocity" : ""); } };
static const double T0S[3] = {0.375, -2.5, 1024.125};

template <class TM, class SM> struct Harness {
  typedef SplineOptimizer<D, Sp, TM, SM> Opt;
  typedef typename Opt::Workspace WS;
  Ctx &c; const std::string &unit; const Cfg &cfg;
  TM utm; SM usm; Opt opt; Prob prob; Layout L;
  TimeCost tc; WaypointCost wc; RunCost<D> rc;
  Harness(Ctx &c_, const std::string &u, const Cfg &g, const TM &tm_, const SM &sm_) : c(c_), unit(u), cfg(g), utm(tm_), usm(sm_) {}
  void fail(const std::string &what, const std::string &detail) { c.st.violate(unit, cfg.str() + ": " + what + ": " + detail, {{"order", order_name(S)}, {"what", what}}); }

  int dof(int i) const { return usm.getUnconstrainedDim(i); }
  bool setup() {
    prob = opt_problem<D>(S, cfg.N, (uint64_t)c.args.seed * 31 + cfg.N, T0S[cfg.t0i]);
    // reference waypoints inside the image of the spatial map
    Lcg g((uint64_t)c.args.seed * 7 + cfg.N);
    for (int i = 0; i <= cfg.N; ++i) { Eigen::VectorXd xi(dof(i)); for (int q = 0; q < xi.size(); ++q) xi(q) = g.dyadic() * 0.5; Eigen::VectorXd p = to_phys(xi, i); for (int d = 0; d < D; ++d) prob.P(i, d) = p(d); }
    // waypoints 0 and 1 exactly at the origin and a zero start velocity: the first sample of segments 0 and 1 has p = 0 (and v = 0 at the start)
    // exactly, so a cost that is linear in the state is exactly 0 there while its gradient is not
    if (cfg.origin) { prob.P.row(0).setZero(); if (cfg.N >= 2) prob.P.row(1).setZero(); prob.bc.start_velocity.setZero(); }
    // far frame: all waypoints translated by a large dyadic vector (decision variables of magnitude > 1000)
    if (cfg.far) for (int i = 0; i <= cfg.N; ++i) for (int d = 0; d < D; ++d) prob.P(i, d) += (d & 1) ? -2600.0 : 3200.0;
    if (cfg.ms1) prob.T[0] = 0.001;
    if (cfg.tm == 2) opt.setTimeMap(&utm);
    if (cfg.sm >= 1) opt.setSpatialMap(&usm);
    opt.setOptimizationFlags(flags_of(cfg.mask)); opt.setEnergyWeights(cfg.rho); opt.setIntegralNumSteps(cfg.K);
    if (!opt.setInitState(prob.T, prob.P, prob.t0, prob.bc)) { fail("setup", "valid problem rejected: " + opt.getLastError()); return false; }
    L = layout_model(ORD, cfg.N, D, cfg.mask, [&](int i) { return dof(i); });
    tc.mode = cfg.tcmode; wc.mode = cfg.wcmode; rc = RunCost<D>::mode(cfg.fmode);
    return true;
  }
  Eigen::VectorXd to_phys(const Eigen::VectorXd &xi, int i) const { if constexpr (std::is_same<SM, IdentitySpatialMap<D>>::value) return xi; else return usm.toPhysical(xi, i); }
  double to_time(double tau) const { if constexpr (std::is_same<TM, VTimeMap>::value) return utm.toTime(tau); else return TM().toTime(tau); }
  Eigen::VectorXd perturbed_guess() { Eigen::VectorXd x = opt.generateInitialGuess(); for (int i = 0; i < x.size(); ++i) x(i) += (((i * 7) % 11) - 5) / 32.0;
    if (cfg.ms1 && cfg.tm == 1) x(0) = 0.0009765625 * 0.75;   // identity time map: T_0 = 0.73 ms, below the limit but positive
    return x; }
  double eval(const Eigen::VectorXd &x, Eigen::VectorXd &g, WS *ws) { return opt.evaluate(x, g, tc, wc, rc, ws); }

  // model decode of a decision vector
  void decode(const Eigen::VectorXd &x, std::vector<double> &T, typename Prob::Mat &P, BoundaryConditions<D> &bc) const {
    T.resize(cfg.N); for (int i = 0; i < cfg.N; ++i) T[i] = to_time(x(i));
    P = prob.P; for (size_t q = 0; q < L.pt_index.size(); ++q) { Eigen::VectorXd p = to_phys(x.segment(L.pt_off[q], L.pt_dof[q]), L.pt_index[q]); for (int d = 0; d < D; ++d) P(L.pt_index[q], d) = p(d); }
    bc = prob.bc; for (size_t b = 0; b < L.blocks.size(); ++b) for (int d = 0; d < D; ++d) bc_ref(bc, L.blocks[b].first, L.blocks[b].second)(d) = x(L.deriv_off + (int)b * D + d);
  }

  // ---------------- C07 ----------------
  void check_gradient() {
    WS ws;
    Eigen::VectorXd xs[2] = {opt.generateInitialGuess(), perturbed_guess()};
    if (xs[0].size() != L.total) { fail("dimension", fmt("initial guess has %ld entries, model %d", (long)xs[0].size(), L.total)); return; }
    for (int xi = 0; xi < 2; ++xi) {
      const Eigen::VectorXd &x = xs[xi]; Eigen::VectorXd g, dummy;
      const double f0 = eval(x, g, &ws);
      if (!std::isfinite(f0) || g.size() != x.size() || !g.allFinite()) { fail("gradient", "non-finite cost/gradient or wrong gradient size"); return; }
      const int n = (int)x.size();
      // the SAME cost and gradient (bitwise) from an optimizer that received this configuration by ASSIGNMENT over an object used for another one,
      // and through user executors on the workspace that has just served other vectors (seeded changes C07-m9 / C07-m10: a member left out of
      // operator=; segment start times chained through the previous segment's slot inside the per-segment work)
      { Opt as2; as2.setOptimizationFlags(flags_of(cfg.mask ^ 0xee)); as2.setIntegralNumSteps(5); Prob q2 = opt_problem<D>(S, cfg.N + 1, 4321, -3.0); if (as2.setInitState(q2.T, q2.P, q2.t0, q2.bc)) (void)as2.getDimension();
        as2 = opt; WS wa; Eigen::VectorXd ga; const double fa = as2.evaluate(x, ga, tc, wc, rc, &wa); ++c.st.comparisons;
        if (!bits_equal(fa, f0) || ga.size() != g.size() || !bits_equal(ga.data(), g.data(), g.size())) { fail("gradient(assigned optimizer)", fmt("an optimizer assigned from this one (after serving another problem) returns cost %.17g / another gradient; the original returns %.17g", fa, f0)); return; }
        Eigen::VectorXd gd, ge; (void)eval(xs[1 - xi], dummy, &ws);   // the workspace last served ANOTHER vector (other durations)
        const double fd = opt.evaluate(x, gd, tc, wc, rc, &ws, DescendingExecutor()); (void)eval(xs[1 - xi], dummy, &ws); const double fe = opt.evaluate(x, ge, tc, wc, rc, &ws, EvenOddExecutor()); ++c.st.comparisons;
        if (!bits_equal(fd, f0) || !bits_equal(fe, f0) || !bits_equal(gd.data(), g.data(), g.size()) || !bits_equal(ge.data(), g.data(), g.size())) { fail("gradient(user executor)", fmt("descending / even-odd executors on a used workspace return cost %.17g / %.17g, the serial executor %.17g (or another gradient)", fd, fe, f0)); return; } }
      Eigen::VectorXd d1(n), d2(n);
      auto rich = [&](int i, double h) { Eigen::VectorXd y = x; double f[4]; const double st[4] = {h, -h, 2 * h, -2 * h}; for (int q = 0; q < 4; ++q) { y(i) = x(i) + st[q]; f[q] = eval(y, dummy, &ws); } return (8.0 * (f[0] - f[1]) - (f[2] - f[3])) / (12.0 * h); };
      const double h = 1.0 / 512.0;
      double gmax = 0; for (int i = 0; i < n; ++i) { d1(i) = rich(i, h); d2(i) = rich(i, h / 2); gmax = std::max(gmax, std::max(std::fabs(g(i)), std::fabs(d2(i)))); }
      const double scale = std::max(gmax, std::fabs(f0) * 1e-3);
      for (int i = 0; i < n; ++i) {
        const double bar = std::fabs(d1(i) - d2(i)), err = std::fabs(g(i) - d2(i)), allow = std::max(10.0 * bar, 1e-6 * scale);
        ++c.st.comparisons; c.st.obs(fmt("grad_err_over_scale/%s", order_name(S)), scale > 0 ? err / scale : 0); c.st.obs(fmt("richardson_bar_over_scale/%s", order_name(S)), scale > 0 ? bar / scale : 0);
        if (err > allow) { fail("gradient", fmt("decision variable %d of %d (x#%d): analytic %.12g vs 4th-order difference %.12g (error bar %.3g, scale %.3g)", i, n, xi, g(i), d2(i), bar, scale)); return; }
      }
      // the built-in workspace gives the same answer (bitwise) and the two-cost overload matches a zero waypoint cost
      { Eigen::VectorXd g2; double f2 = eval(x, g2, nullptr); ++c.st.comparisons; if (!bits_equal(f2, f0) || !bits_equal(g2.data(), g.data(), n)) { fail("builtin-workspace", "evaluate with the built-in workspace differs from an explicit workspace"); return; } }
    }
  }

  // ---------------- C08 ----------------
  void check_cost() {
    WS ws; const int N = cfg.N, K = cfg.K;
    Eigen::VectorXd x = perturbed_guess(), g;
    std::vector<Sample> rec; rc.rec = &rec;
    const double cost = eval(x, g, &ws);
    rc.rec = nullptr;
    ++c.st.comparisons;
    if ((int)rec.size() != (K + 1) * N) { fail("sample-count", fmt("%zu samples, expected (K+1)*N = %d", rec.size(), (K + 1) * N)); return; }
    // the executor only decides in which order (or on which thread) the per-segment work runs: a user executor visiting the segments in
    // descending / even-then-odd order returns the same cost and gradient, bit for bit, and hands the functor the same samples
    // (seeded change C08-m7: segment start times accumulated inside the per-segment work)
    for (int ord = 0; ord < 2 && N >= 2; ++ord) { WS we; Eigen::VectorXd ge; std::vector<Sample> rec2; rc.rec = &rec2; const double ce = ord == 0 ? opt.evaluate(x, ge, tc, wc, rc, &we, DescendingExecutor()) : opt.evaluate(x, ge, tc, wc, rc, &we, EvenOddExecutor()); rc.rec = nullptr; ++c.st.comparisons;
      if (!bits_equal(ce, cost) || ge.size() != g.size() || !bits_equal(ge.data(), g.data(), g.size())) { fail("executor-order", fmt("a user executor visiting the segments in %s order returns cost %.17g, the default serial executor %.17g (or another gradient)", ord == 0 ? "descending" : "even-then-odd", ce, cost)); return; }
      auto key = [](const Sample &a, const Sample &b) { return a.seg != b.seg ? a.seg < b.seg : a.tg < b.tg; }; std::vector<Sample> r1 = rec, r2 = rec2; std::stable_sort(r1.begin(), r1.end(), key); std::stable_sort(r2.begin(), r2.end(), key);
      bool same = r1.size() == r2.size(); for (size_t i = 0; same && i < r1.size(); ++i) same = r1[i].seg == r2[i].seg && bits_equal(r1[i].tg, r2[i].tg) && bits_equal(r1[i].t, r2[i].t);
      if (!same) { fail("executor-order", "the running cost is sampled at other (segment, local time, global time) triples under a user executor"); return; } }
    std::vector<double> T; typename Prob::Mat P; BoundaryConditions<D> bc; decode(x, T, P, bc);
    const Sp &wsp = ws.spline; const auto &C = wsp.getTrajectory().getCoefficients();
    // decoded inputs reached the workspace spline
    { bool ok = wsp.getTimeSegments() == T && mat_bits_equal(wsp.getSpacePoints(), P) && wsp.getStartTime() == prob.t0; for (int side = 0; side < 2; ++side) for (int k = 1; k <= S - 1; ++k) ok = ok && bc_ref(wsp.getBoundaryConditions(), side, k) == bc_ref(bc, side, k);
      ++c.st.comparisons; if (!ok) { fail("decode", "workspace spline was not built from the decoded durations / waypoints / boundary states / start time"); return; } }
    LD integral = 0, integral_abs = 0; double seg_start = prob.t0;
    for (int i = 0; i < N; ++i) {
      for (int k = 0; k <= K; ++k) {
        const Sample &s = rec[i * (K + 1) + k];
        const double tl = ((double)k / K) * T[i];
        ++c.st.comparisons;
        if (s.seg != i) { fail("sample-segment", fmt("sample %d of segment %d carries segment index %d", k, i, s.seg)); return; }
        if (std::fabs(s.t - tl) > 4 * (std::nextafter(tl, INFINITY) - tl) + 1e-300) { fail("sample-local-time", fmt("segment %d sample %d: t=%.17g expected k*T/K=%.17g", i, k, s.t, tl)); return; }
        const double tg = seg_start + tl; if (std::fabs(s.tg - tg) > 8 * (std::nextafter(std::fabs(tg) + 1, INFINITY) - (std::fabs(tg) + 1))) { fail("sample-global-time", fmt("segment %d sample %d: t_global=%.17g expected start + elapsed + t = %.17g", i, k, s.tg, tg)); return; }
        const std::vector<double> *st[5] = {&s.p, &s.v, &s.a, &s.j, &s.s};
        for (int dk = 0; dk < 5; ++dk) for (int d = 0; d < D; ++d) { LD cc[16]; piece_coeffs(C, M, i, d, cc); LD want = poly_deriv(cc, M, dk, (LD)s.t), mag = poly_deriv_abs(cc, M, dk, (LD)s.t);
          double e = mag > 0 ? (double)(fabsl((LD)(*st[dk])[d] - want) / mag) : ((*st[dk])[d] != 0 ? 1.0 : 0.0); c.st.obs("sample_state_err", e);
          if (e > 1e-11) { fail("sample-state", fmt("segment %d sample %d derivative %d dim %d: got %.17g, published piece gives %.17Lg", i, k, dk, d, (*st[dk])[d], want)); return; } }
        // trapezoid term recomputed from the recorded sample
        typename Opt::VectorType p, v, a, j, sn, gp, gv, ga, gj, gs; double gt;
        for (int d = 0; d < D; ++d) { p(d) = s.p[d]; v(d) = s.v[d]; a(d) = s.a[d]; j(d) = s.j[d]; sn(d) = s.s[d]; }
        double cv = rc(s.t, s.tg, s.seg, p, v, a, j, sn, gp, gv, ga, gj, gs, gt);
        LD w = (k == 0 || k == K) ? 0.5L : 1.0L; integral += w * ((LD)T[i] / K) * cv; integral_abs += w * ((LD)T[i] / K) * fabsl(cv);
      }
      seg_start += T[i];
    }
    Eigen::VectorXd tg(N); LD tcost = tc(T, tg); Eigen::MatrixXd wg = Eigen::MatrixXd::Zero(N + 1, D); LD wcost = wc(P, wg);
    LD en = cfg.rho > 0 ? (LD)cfg.rho * (LD)wsp.getEnergy() : 0;
    LD want = tcost + wcost + integral + en, mag = fabsl(tcost) + fabsl(wcost) + integral_abs + fabsl(en);
    { double e = mag > 0 ? (double)(fabsl((LD)cost - want) / mag) : std::fabs(cost); ++c.st.comparisons; c.st.obs("cost_decomposition_err", e);
      if (e > 1e-12) { fail("cost-decomposition", fmt("returned %.17g, time %.12Lg + waypoint %.12Lg + trapezoid %.12Lg + rho*energy %.12Lg = %.17Lg", cost, tcost, wcost, integral, en, want)); return; } }
    // R4: the same cost from the decoded inputs through the reference spline (dense long-double solve)
    { Prob q; q.N = N; q.T = T; q.t0 = prob.t0; q.P = P; q.bc = bc; RefSpline<LD> R = ref_solve_ld(S, q);
      LD integ = 0, iabs = 0, energy = 0; double ss = prob.t0;
      for (int i = 0; i < N; ++i) { for (int k = 0; k <= K; ++k) { const double tl = ((double)k / K) * T[i]; typename Opt::VectorType st[5], gp, gv, ga, gj, gs; double gt;
          for (int dk = 0; dk < 5; ++dk) for (int d = 0; d < D; ++d) { LD cc[16]; for (int m = 0; m < M; ++m) cc[m] = R.C[i * M + m][d]; st[dk](d) = (double)poly_deriv(cc, M, dk, (LD)tl); }
          double cv = rc(tl, ss + tl, i, st[0], st[1], st[2], st[3], st[4], gp, gv, ga, gj, gs, gt); LD w = (k == 0 || k == K) ? 0.5L : 1.0L; integ += w * ((LD)T[i] / K) * cv; iabs += w * ((LD)T[i] / K) * fabsl(cv); }
        for (int d = 0; d < D; ++d) { LD cc[16]; for (int m = 0; m < M; ++m) cc[m] = R.C[i * M + m][d]; energy += energy_piece(cc, M, S, (LD)T[i]); }
        ss += T[i]; }
      LD w2 = tcost + wcost + integ + (LD)cfg.rho * energy, m2 = fabsl(tcost) + fabsl(wcost) + iabs + (LD)cfg.rho * energy;
      double e = m2 > 0 ? (double)(fabsl((LD)cost - w2) / m2) : std::fabs(cost); ++c.st.comparisons; c.st.obs(fmt("cost_vs_R4/%s", order_name(S)), e);
      if (e > (S == 2 ? 1e-8 : S == 3 ? 1e-7 : 1e-6)) { fail("cost-vs-model", fmt("returned %.17g, reference model (dense solve of the decoded problem) %.17Lg", cost, w2)); return; } }
    // two-cost overload == three-cost overload with a zero waypoint cost
    { WS w1, w2; Eigen::VectorXd g1, g2; double c1 = opt.evaluate(x, g1, tc, rc, &w1), c2 = opt.evaluate(x, g2, tc, ZeroWaypointCost(), rc, &w2); ++c.st.comparisons;
      bool ok = c1 == c2 && g1.size() == g2.size(); for (int i = 0; ok && i < g1.size(); ++i) ok = g1(i) == g2(i);
      if (!ok) { fail("two-cost-overload", "evaluate(x,g,time,running) differs from the three-cost overload with a zero waypoint cost"); return; } }
    // a second evaluation on the SAME workspace whose decision vector differs only in one boundary-derivative entry (same knots)
    if (!L.blocks.empty()) { Eigen::VectorXd x2 = x, g2, g3; x2(L.deriv_off) += 0.5; WS ws2 = ws; /* a copy: `C` below still refers to ws.spline */ double c2 = eval(x2, g2, &ws2); WS wf; double c3 = eval(x2, g3, &wf); ++c.st.comparisons;
      if (!bits_equal(c2, c3) || !bits_equal(g2.data(), g3.data(), g3.size())) { fail("same-knots-other-boundary-state", fmt("after changing only a boundary-derivative entry of x the same workspace returns %.17g, a fresh workspace %.17g", c2, c3)); return; } }
    // the same call on a workspace that last served a LARGER problem (and this one before that) returns the same cost and gradient (bitwise)
    { Opt big; if (cfg.tm == 2) big.setTimeMap(&utm); if (cfg.sm >= 1) big.setSpatialMap(&usm); big.setOptimizationFlags(flags_of(cfg.mask)); big.setEnergyWeights(cfg.rho); big.setIntegralNumSteps(cfg.K);
      Prob pb = opt_problem<D>(S, cfg.N + 2, 977, prob.t0);
      if (big.setInitState(pb.T, pb.P, pb.t0, pb.bc)) { WS wd; Eigen::VectorXd gd, xb = big.generateInitialGuess(); (void)eval(x, gd, &wd); (void)big.evaluate(xb, gd, tc, wc, rc, &wd); double cd = eval(x, gd, &wd); ++c.st.comparisons;
        if (!bits_equal(cd, cost) || gd.size() != g.size() || !bits_equal(gd.data(), g.data(), g.size())) { fail("reused-workspace", fmt("on a workspace that last served a problem with %d segments the cost is %.17g, on a fresh workspace %.17g", cfg.N + 2, cd, cost)); return; } } }
    // a copy-constructed and an assigned optimizer return the same cost and gradient (bitwise)
    { Opt cp(opt); Opt as; as.setIntegralNumSteps(5); as = opt; WS w1, w2; Eigen::VectorXd g1, g2; double c1 = cp.evaluate(x, g1, tc, wc, rc, &w1), c2 = as.evaluate(x, g2, tc, wc, rc, &w2); ++c.st.comparisons;
      if (!bits_equal(c1, cost) || !bits_equal(c2, cost) || g1.size() != g.size() || g2.size() != g.size() || !bits_equal(g1.data(), g.data(), g.size()) || !bits_equal(g2.data(), g.data(), g.size())) { fail("copy-evaluates-differently", fmt("copy-constructed: %.17g, assigned: %.17g, original: %.17g", c1, c2, cost)); return; } }
    // after an evaluation with the built-in workspace the exposed spline is the one defined by x
    { Eigen::VectorXd g1; opt.evaluate(x, g1, tc, wc, rc); const Sp *os = opt.getOptimalSpline(); ++c.st.comparisons;
      if (!os || !mat_bits_equal(os->getTrajectory().getCoefficients(), C)) { fail("optimal-spline", "getOptimalSpline() is not the spline defined by the evaluated decision vector"); return; } }
  }

  // ---------------- C09 (static) ----------------
  void check_layout() {
    ++c.st.comparisons;
    if (opt.getDimension() != L.total) { fail("dimension", fmt("getDimension() = %d, model = %d", opt.getDimension(), L.total)); return; }
    Eigen::VectorXd x0 = opt.generateInitialGuess();
    if (x0.size() != L.total) { fail("initial-guess-size", fmt("%ld vs %d", (long)x0.size(), L.total)); return; }
    // the initial guess decodes back to the reference
    { std::vector<double> T; typename Prob::Mat P; BoundaryConditions<D> bc; decode(x0, T, P, bc); ++c.st.comparisons;
      for (int i = 0; i < cfg.N; ++i) if (std::fabs(T[i] - prob.T[i]) > 1e-12 * prob.T[i]) { fail("initial-guess-roundtrip", fmt("duration %d decodes to %.17g, reference %.17g", i, T[i], prob.T[i])); return; }
      for (int i = 0; i <= cfg.N; ++i) for (int d = 0; d < D; ++d) if (std::fabs(P(i, d) - prob.P(i, d)) > 1e-12 * (1 + std::fabs(prob.P(i, d)))) { fail("initial-guess-roundtrip", fmt("waypoint %d dim %d decodes to %.17g, reference %.17g", i, d, P(i, d), prob.P(i, d))); return; }
      for (int side = 0; side < 2; ++side) for (int k = 1; k <= 3; ++k) if (bc_ref(bc, side, k) != bc_ref(prob.bc, side, k)) { fail("initial-guess-roundtrip", "boundary state"); return; }
      // and through the library: evaluate(x0) with the built-in workspace
      Eigen::VectorXd g; opt.evaluate(x0, g, tc, wc, rc); const Sp *os = opt.getOptimalSpline();
      if (!os) { fail("optimal-spline", "null after evaluate"); return; }
      for (int i = 0; i < cfg.N; ++i) if (std::fabs(os->getTimeSegments()[i] - prob.T[i]) > 1e-12 * prob.T[i]) { fail("initial-guess-roundtrip(lib)", fmt("duration %d = %.17g, reference %.17g", i, os->getTimeSegments()[i], prob.T[i])); return; }
      for (int i = 0; i <= cfg.N; ++i) for (int d = 0; d < D; ++d) if (std::fabs(os->getSpacePoints()(i, d) - prob.P(i, d)) > 1e-12 * (1 + std::fabs(prob.P(i, d)))) { fail("initial-guess-roundtrip(lib)", fmt("waypoint %d dim %d", i, d)); return; }
      for (int side = 0; side < 2; ++side) for (int k = 1; k <= S - 1; ++k) if (bc_ref(os->getBoundaryConditions(), side, k) != bc_ref(prob.bc, side, k)) { fail("initial-guess-roundtrip(lib)", fmt("boundary state side %d derivative %d", side, k)); return; } }
    // neighbouring reference durations that differ by less than 1e-9 but are not equal (relative steps of 2^-31): every one of them
    // must come back from the initial guess (a shortcut for "uniform" time allocations written with a tolerance: seeded change C17-m6)
    if (cfg.N >= 2) { Opt o2 = opt; Prob q = prob; for (int i = 0; i < cfg.N; ++i) q.T[i] = prob.T[0] * (1.0 + i * 4.656612873077393e-10); ++c.st.comparisons;
      if (!o2.setInitState(q.T, q.P, q.t0, q.bc)) { fail("setup", "valid problem (nearly equal durations) rejected: " + o2.getLastError()); return; }
      Eigen::VectorXd xn = o2.generateInitialGuess(); if (xn.size() != L.total) { fail("initial-guess-size", "nearly equal durations"); return; }
      for (int i = 0; i < cfg.N; ++i) { const double Ti = to_time(xn(i)); if (!(std::fabs(Ti - q.T[i]) <= 1e-12 * q.T[i])) { fail("initial-guess-roundtrip", fmt("nearly equal reference durations: duration %d decodes to %.17g, reference %.17g (neighbour %.17g)", i, Ti, q.T[i], q.T[i ? i - 1 : 1])); return; } } }
    // pairwise distinct decision vector 1 + i/64: mis-indexing is visible; unflagged quantities stay pinned exactly
    { Eigen::VectorXd x(L.total); for (int i = 0; i < L.total; ++i) x(i) = 1.0 + i / 64.0;
      if (cfg.sm == 3) for (int i = cfg.N; i < L.deriv_off; ++i) x(i) = (i - cfg.N) / 64.0 - 0.5;
      std::vector<double> T; typename Prob::Mat P; BoundaryConditions<D> bc; decode(x, T, P, bc);
      Eigen::VectorXd g; opt.evaluate(x, g, tc, wc, rc); const Sp *os = opt.getOptimalSpline(); ++c.st.comparisons;
      if (!os) { fail("optimal-spline", "null after evaluate"); return; }
      if (os->getTimeSegments() != T) { fail("layout-times", "durations are not toTime of the first N entries"); return; }
      if (!mat_bits_equal(os->getSpacePoints(), P)) { fail("layout-points", "waypoints are not the model's slices of x (or an unflagged waypoint moved)"); return; }
      for (int side = 0; side < 2; ++side) for (int k = 1; k <= S - 1; ++k) if (bc_ref(os->getBoundaryConditions(), side, k) != bc_ref(bc, side, k)) { fail("layout-boundary", fmt("side %d derivative %d is not the model's block of x (or an unflagged state moved)", side, k)); return; }
      if (os->getStartTime() != prob.t0 || g.size() != L.total) { fail("layout", "start time / gradient size"); return; }
      // the spline exposed is exactly the one a fresh spline gives for the decoded inputs
      Sp fresh(T, P, prob.t0, bc); if (!mat_bits_equal(fresh.getTrajectory().getCoefficients(), os->getTrajectory().getCoefficients())) { fail("optimal-spline", "exposed spline differs from a fresh spline of the decoded inputs"); return; } }
  }

  // ---------------- C19 ----------------
  // a cost that is a quadratic polynomial of the decision vector (time cost + waypoint cost, identity maps, no running cost, no energy): central
  // differences are exact up to rounding, so the verdict for correct functors is asserted without any noise model -- in particular at a
  // reference duration of exactly 1 ms, the acceptance limit (seeded change C19-m10: durations clamped from below inside evaluate())
  void check_selfcheck_polynomial() {
    Eigen::VectorXd x = opt.generateInitialGuess(); const int n = (int)x.size(); RunCost<D> zero = RunCost<D>::mode(10);
    for (int three = 0; three < 2; ++three) for (int builtin = 0; builtin < 2; ++builtin) { WS ws; auto r = three ? opt.checkGradients(x, tc, wc, zero, builtin ? nullptr : &ws) : opt.checkGradients(x, tc, zero, builtin ? nullptr : &ws); ++c.st.comparisons;
      if (r.analytical.size() != n || r.numerical.size() != n) { fail("selfcheck-polynomial-cost", "wrong vector sizes"); return; }
      if (!r.valid || !(r.error_norm <= 1e-6 * (1.0 + r.analytical.norm()))) { fail("selfcheck-polynomial-cost", fmt("cost quadratic in x, correct functors, default eps/tol: valid=%d error_norm=%.3g (three-cost=%d, %s workspace); numerical[0]=%.17g analytical[0]=%.17g", (int)r.valid, r.error_norm, three, builtin ? "built-in" : "explicit", r.numerical(0), r.analytical(0))); return; } }
    c.st.cls("C19: polynomial cost (no noise model needed)");
  }
  void check_selfcheck() {
    if (cfg.ms1) { check_selfcheck_polynomial(); return; }
    const int N = cfg.N;
    Eigen::VectorXd x = perturbed_guess(); const int n = (int)x.size();
    WS w0; Eigen::VectorXd g0; const double f0 = eval(x, g0, &w0);
    auto run = [&](bool three, WS *ws, double e, double t) { return three ? opt.checkGradients(x, tc, wc, rc, ws, e, t) : opt.checkGradients(x, tc, rc, ws, e, t); };
    auto analytic = [&](bool three) { WS w; Eigen::VectorXd g; if (three) opt.evaluate(x, g, tc, wc, rc, &w); else opt.evaluate(x, g, tc, rc, &w); return g; };
    // re-configuration right before the self-check, with NO query in between: the layout cache was last built for another flag set
    { opt.setOptimizationFlags(flags_of(cfg.mask ^ 0x22)); (void)opt.getDimension(); opt.setOptimizationFlags(flags_of(cfg.mask)); }
    // default arguments are eps = 1e-6, tol = 1e-4 and the built-in workspace (no domain needed: pure forwarding)
    { WS wa, wb; auto r1 = opt.checkGradients(x, tc, wc, rc, &wa), r2 = opt.checkGradients(x, tc, wc, rc, &wb, 1e-6, 1e-4); auto r3 = opt.checkGradients(x, tc, rc, &wa), r4 = opt.checkGradients(x, tc, rc, &wb, 1e-6, 1e-4); ++c.st.comparisons;
      if (r1.analytical.size() != n || r1.numerical.size() != n || r2.numerical.size() != n || r3.numerical.size() != n || r4.numerical.size() != n) { fail("selfcheck-after-reconfiguration", fmt("checkGradients right after setOptimizationFlags (no query in between) returns %ld analytical / %ld numerical entries for a decision vector of %d", (long)r1.analytical.size(), (long)r1.numerical.size(), n)); return; }
      bool ok = r1.valid == r2.valid && bits_equal(r1.error_norm, r2.error_norm) && bits_equal(r1.numerical.data(), r2.numerical.data(), n) && r3.valid == r4.valid && bits_equal(r3.error_norm, r4.error_norm) && bits_equal(r3.numerical.data(), r4.numerical.data(), n);
      if (!ok) { fail("selfcheck-defaults", "default eps/tol are not 1e-6 / 1e-4"); return; } }
    // Trustworthy domain, decided a priori from measurements that do not involve checkGradients:
    //   rounding: spread of the cost under perturbations of 2^-40 with the analytic first-order term removed -> floor = sigma sqrt(n)/eps
    //   truncation: |2nd-order - 4th-order difference| at h = 2^-9, scaled by (eps/h)^2
    double sigma = std::fabs(f0) * 2.3e-16;
    for (int j = 1; j <= 12; ++j) { Eigen::VectorXd y = x, gd; const int i = j % n; y(i) += std::ldexp((double)j, -40); WS w; double fj = eval(y, gd, &w); sigma = std::max(sigma, std::fabs((fj - f0) - g0(i) * (y(i) - x(i)))); }
    double trunc_h = 0; const double h = 1.0 / 512.0;
    { double acc = 0; for (int i = 0; i < n; ++i) { Eigen::VectorXd y = x, gd; WS w; double f[4]; const double st[4] = {h, -h, 2 * h, -2 * h}; for (int q = 0; q < 4; ++q) { y(i) = x(i) + st[q]; f[q] = eval(y, gd, &w); } double d2 = (f[0] - f[1]) / (2 * h), d4 = (8.0 * (f[0] - f[1]) - (f[2] - f[3])) / (12.0 * h); acc += (d2 - d4) * (d2 - d4); } trunc_h = std::sqrt(acc); }
    static const double ladder[4][2] = {{1e-6, 1e-4}, {1e-5, 1e-3}, {1e-4, 1e-2}, {1e-3, 1e-1}};
    double eps = 0, tol = 0;
    for (int l = 0; l < 4; ++l) { const double e = ladder[l][0], t = ladder[l][1]; if (sigma * std::sqrt((double)n) / e <= t / 20 && trunc_h * (e / h) * (e / h) <= t / 20) { eps = e; tol = t; break; } }
    if (eps == 0) { c.st.cls(fmt("C19: %s: no (eps,tol) of the ladder is trustworthy for this problem, skipped", order_name(S))); return; }
    c.st.cls(fmt("C19: %s: verdicts asserted with eps=%g tol=%g", order_name(S), eps, tol));
    for (int three = 0; three < 2; ++three) {
      // correct functors: success, and the report's fields are what they claim to be
      for (int builtin = 0; builtin < 2; ++builtin) {
        WS ws; auto r = run(three, builtin ? nullptr : &ws, eps, tol); ++c.st.comparisons;
        Eigen::VectorXd ga = analytic(three);
        { const std::string rep = r.makeReport(); const bool says_pass = rep.find("PASSED") != std::string::npos, says_fail = rep.find("FAILED") != std::string::npos; if (says_pass != r.valid || says_fail == r.valid) { fail("selfcheck-report", "makeReport() text contradicts the valid flag: " + rep); return; } }
        if (!r.valid) { fail("selfcheck-correct-functors", fmt("reports failure (error norm %.3g, eps %g tol %g) for correct gradients, three-cost=%d", r.error_norm, eps, tol, three)); return; }
        if (r.analytical.size() != n || !bits_equal(r.analytical.data(), ga.data(), n)) { fail("selfcheck-analytical", "returned analytical gradient is not evaluate()'s gradient at x"); return; }
        Eigen::VectorXd num(n), dg; for (int i = 0; i < n; ++i) { Eigen::VectorXd y = x; WS w; y(i) = x(i) + eps; double cp = three ? opt.evaluate(y, dg, tc, wc, rc, &w) : opt.evaluate(y, dg, tc, rc, &w); y(i) = x(i) - eps; double cm = three ? opt.evaluate(y, dg, tc, wc, rc, &w) : opt.evaluate(y, dg, tc, rc, &w); num(i) = (cp - cm) / (2 * eps); }
        { bool same = r.numerical.size() == n; for (int i = 0; same && i < n; ++i) same = std::fabs(r.numerical(i) - num(i)) <= 1e-15 * std::fabs(num(i));   // within 4 ulp: (c+ - c-) * (0.5 / eps) is as good a central difference as (c+ - c-) / (2 eps)
          if (!same) { fail("selfcheck-numerical", "returned numerical gradient is not the central difference (c+ - c-)/(2 eps) of the optimizer's own cost"); return; } }
        double en = (ga - num).norm(), gn = ga.norm();
        if (std::fabs(r.error_norm - en) > 1e-12 * (en + 1e-300) || std::fabs(r.rel_error - (gn > 1e-9 ? en / gn : en)) > 1e-12 * (r.rel_error + 1e-300)) { fail("selfcheck-norms", fmt("error_norm %.17g / rel_error %.17g do not follow their definitions (%.17g)", r.error_norm, r.rel_error, en)); return; }
        c.st.obs("C19_error_norm_over_tol(correct functors)", r.error_norm / tol);
        // workspace spline afterwards = spline of x
        WS wf; Eigen::VectorXd gf; if (three) opt.evaluate(x, gf, tc, wc, rc, &wf); else opt.evaluate(x, gf, tc, rc, &wf);
        const Sp &after = builtin ? *opt.getOptimalSpline() : ws.spline;
        if (!mat_bits_equal(after.getTrajectory().getCoefficients(), wf.spline.getTrajectory().getCoefficients()) || after.getTimeSegments() != wf.spline.getTimeSegments()) { fail("selfcheck-restore", "workspace spline after checkGradients is not the spline of the checked decision vector"); return; }
      }
      // a SECOND self-check at another decision vector of the same size on the same workspace (explicit and built-in): its report must be
      // the one a fresh workspace gives -- nothing of the first check (probe point, scratch gradient) may survive (seeded change C19-m5)
      { Eigen::VectorXd x2 = x; for (int i = 0; i < n; ++i) x2(i) += (((i * 5) % 7) - 3) / 64.0;
        auto at = [&](const Eigen::VectorXd &xx, WS *w) { return three ? opt.checkGradients(xx, tc, wc, rc, w, eps, tol) : opt.checkGradients(xx, tc, rc, w, eps, tol); };
        WS wf; auto rf = at(x2, &wf);
        for (int builtin = 0; builtin < 2; ++builtin) { WS wp; (void)at(x, builtin ? nullptr : &wp); auto r2 = at(x2, builtin ? nullptr : &wp); ++c.st.comparisons;
          if (r2.valid != rf.valid || r2.numerical.size() != n || r2.analytical.size() != n || !bits_equal(r2.numerical.data(), rf.numerical.data(), n) || !bits_equal(r2.analytical.data(), rf.analytical.data(), n) || !bits_equal(r2.error_norm, rf.error_norm)) {
            fail("selfcheck-second-use", fmt("a second checkGradients at another decision vector on the same %s workspace reports valid=%d error_norm=%.6g; on a fresh workspace valid=%d error_norm=%.6g (three-cost=%d)", builtin ? "built-in" : "explicit", (int)r2.valid, r2.error_norm, (int)rf.valid, rf.error_norm, three)); return; } } }
      // tol is honoured
      { WS ws; auto r2 = run(three, &ws, eps, 1e-300); ++c.st.comparisons; if (r2.valid && r2.error_norm > 0) { fail("selfcheck-eps-tol", "tol is ignored"); return; } }
      // every single wrong gradient component
      // (the cost does not depend on what a functor writes into its gradient outputs, so the central differences of a check with a perturbed
      //  functor are those of the correct one, bit for bit: `numc`)
      Eigen::VectorXd numc; { WS wn; numc = run(three, &wn, eps, tol).numerical; }
      Eigen::VectorXd gc = analytic(three);
      struct Pert { int kind, a, b; };  // 0 time cost comp a; 1 waypoint (a,b); 2 running output a comp b
      std::vector<Pert> ps; for (int i = 0; i < N; ++i) ps.push_back({0, i, 0});
      if (three) for (int i = 0; i <= N; ++i) for (int d = 0; d < D; ++d) ps.push_back({1, i, d});
      for (int o = 0; o < 5; ++o) for (int d = 0; d < D; ++d) ps.push_back({2, o, d}); ps.push_back({2, 5, 0});
      for (const Pert &pp : ps) {
        TimeCost tcs = tc; WaypointCost wcs = wc; RunCost<D> rcs = rc; const double delta = 4.0e4 * tol;
        if (pp.kind == 0) { tc.pert_comp = pp.a; tc.pert = delta; } else if (pp.kind == 1) { wc.pert_row = pp.a; wc.pert_col = pp.b; wc.pert = delta; } else { rc.pert_out = pp.a; rc.pert_comp = pp.b; rc.pert = delta; }
        Eigen::VectorXd gp = analytic(three); const double e = (gp - gc).norm();
        WS ws; auto r = run(three, &ws, eps, tol); ++c.st.comparisons;
        tc = tcs; wc = wcs; rc = rcs;
        const char *kn = pp.kind == 0 ? "time-cost" : pp.kind == 1 ? "waypoint-cost" : "running-cost";
        // the same component delivered as NaN / +Inf (finite cost): an influential component that is not a number can never be "within tolerance"
        if (e >= 10 * tol) for (double bad : {std::numeric_limits<double>::quiet_NaN(), std::numeric_limits<double>::infinity()}) {
          if (pp.kind == 0) { tc.pert_comp = pp.a; tc.pert = bad; } else if (pp.kind == 1) { wc.pert_row = pp.a; wc.pert_col = pp.b; wc.pert = bad; } else { rc.pert_out = pp.a; rc.pert_comp = pp.b; rc.pert = bad; }
          WS wb; auto rb = run(three, &wb, eps, tol); ++c.st.comparisons; tc = tcs; wc = wcs; rc = rcs;
          if (rb.valid) { fail("selfcheck-misses-wrong-gradient", fmt("%s gradient component (%d,%d) is %s (the cost is finite and the component influences the gradient) but valid=true, error_norm=%.3g", pp.kind == 0 ? "time-cost" : pp.kind == 1 ? "waypoint-cost" : "running-cost", pp.a, pp.b, std::isnan(bad) ? "NaN" : "+Inf", rb.error_norm)); return; } }
        { const std::string rep = r.makeReport(); if ((rep.find("PASSED") != std::string::npos) != r.valid || (rep.find("FAILED") != std::string::npos) == r.valid) { fail("selfcheck-report", "makeReport() text contradicts the valid flag: " + rep); return; } }
        // a FAILING report is still a full report: both vectors complete, the norms by their definitions (seeded change C19-m7: the loop stops at
        // the first offending component and leaves the rest of `numerical` at zero)
        if (std::isfinite(delta)) { const double en = (gp - numc).norm(), gn = gp.norm();
          if (r.analytical.size() != n || r.numerical.size() != n || !bits_equal(r.analytical.data(), gp.data(), n) || !bits_equal(r.numerical.data(), numc.data(), n)) { fail("selfcheck-report-on-failure", fmt("%s gradient component (%d,%d) wrong: the returned analytical / numerical vectors are not evaluate()'s gradient / the central differences of the cost (valid=%d)", kn, pp.a, pp.b, (int)r.valid)); return; }
          if (std::fabs(r.error_norm - en) > 1e-12 * (en + 1e-300) || std::fabs(r.rel_error - (gn > 1e-9 ? en / gn : en)) > 1e-12 * (r.rel_error + 1e-300)) { fail("selfcheck-report-on-failure", fmt("%s gradient component (%d,%d) wrong: error_norm %.17g / rel_error %.17g do not follow their definitions (%.17g)", kn, pp.a, pp.b, r.error_norm, r.rel_error, en)); return; } }
        if (e >= 10 * tol) { c.st.cls("C19: perturbed component influences the gradient -> must fail"); if (r.valid) { fail("selfcheck-misses-wrong-gradient", fmt("%s gradient component (%d,%d) wrong by %.3g (analytic gradient off by %.3g) but valid=true, error_norm=%.3g, eps %g tol %g", kn, pp.a, pp.b, delta, e, r.error_norm, eps, tol)); return; } }
        else if (e == 0.0) { c.st.cls("C19: perturbed component has no influence -> must still pass"); if (!r.valid) { fail("selfcheck-false-alarm", fmt("%s gradient component (%d,%d) does not influence the gradient, yet valid=false", kn, pp.a, pp.b)); return; } }
        else c.st.cls("C19: perturbation influence between 0 and 10 tol (verdict not asserted)");
      }
    }
  }

  void run() {
    if (!setup()) return;
    if (VPROP == 7) check_gradient(); else if (VPROP == 8) check_cost(); else if (VPROP == 9) check_layout(); else check_selfcheck();
  }
};

static void run_config(Ctx &c, const std::string &unit, const Cfg &g) {
  VTimeMap vt(0.125); VMap<D> vm(g.sm == 2 ? 1 : g.sm == 3 ? 2 : 0, g.sm == 3 ? 2.0 : 1.5, 0.25); IdentitySpatialMap<D> is; QuadInvTimeMap qt; IdentityTimeMap it;
  if (g.sm == 0) { if (g.tm == 0) Harness<QuadInvTimeMap, IdentitySpatialMap<D>>(c, unit, g, qt, is).run(); else if (g.tm == 1) Harness<IdentityTimeMap, IdentitySpatialMap<D>>(c, unit, g, it, is).run(); else Harness<VTimeMap, IdentitySpatialMap<D>>(c, unit, g, vt, is).run(); }
  else { if (g.tm == 0) Harness<QuadInvTimeMap, VMap<D>>(c, unit, g, qt, vm).run(); else if (g.tm == 1) Harness<IdentityTimeMap, VMap<D>>(c, unit, g, it, vm).run(); else Harness<VTimeMap, VMap<D>>(c, unit, g, vt, vm).run(); }
}

// basis rows of computeBasisFunctions vs falling factorials (C08, argument P)
static void check_basis(Ctx &c, const std::string &unit) {
  for (double t : {0.0, 0.125, 0.25, 0.5, 1.0, 1.5, 2.0, 3.0, 5.0}) {
    Eigen::Matrix<double, 1, 2 * VORDER> b[6]; Sp::computeBasisFunctions(t, b[0], b[1], b[2], b[3], b[4], b[5]);
    for (int k = 0; k < 6; ++k) for (int j = 0; j < M; ++j) { LD want = 0; if (j >= k) { want = fallfac(j, k); for (int q = 0; q < j - k; ++q) want *= (LD)t; } ++c.st.comparisons;
      if (std::fabs(b[k](j) - (double)want) > 4e-16 * std::fabs((double)want)) c.st.violate(unit, fmt("%s computeBasisFunctions(t=%g): row %d (derivative %d) entry %d = %.17g, expected %.17Lg", order_name(S), t, k, k, j, b[k](j), want), {{"what", "basis-row"}}); }
  }
}

int main(int argc, char **argv) {
  Args a = parse_args(argc, argv);
  return supervise(a, [&](Ctx &c) {
    const bool th = c.args.thorough(); long id = 0;
    auto unit_do = [&](const Cfg &g) { long my = id++; if (!c.mine(my)) return; std::string unit = str(my); if (!c.begin(unit)) return; run_config(c, unit, g); ++c.st.evaluations; if (!c.st.seen(g.str()) && (g.mask != 0 || g.N >= 2)) ++c.st.nontrivial;
      c.st.cls(fmt("N=%d", g.N)); if (my % 503 == 0) c.st.sample(fmt("unit %ld: %s", my, g.str().c_str())); };
    if (VPROP == 8) { long my = id++; if (c.mine(my) && c.begin(str(my))) { check_basis(c, str(my)); ++c.st.evaluations; c.st.seen("basis"); } }
    if (VPROP == 9) {
      // all 256 flag masks x N 1..6 x {Identity, Proj (DIM>=2) / Scale} x 3 time maps
      for (int N = 1; N <= 6; ++N) for (unsigned m = 0; m < 256; ++m) for (int sm : {0, 2, 3}) for (int tm = 0; tm < 3; ++tm) { if (sm == 3 && !(th || (m % 17 == 0))) continue; if (tm != 0 && !(th || (m % 5 == 0))) continue; Cfg g; g.mask = m; g.N = N; g.sm = sm; g.tm = tm; g.K = 1; g.fmode = 0; g.rho = 0; unit_do(g); }
      return;
    }
    if (VPROP == 19) {
      for (int N = 1; N <= 3; ++N) for (unsigned m = 0; m < 256; ++m) { if (!th && !(m == 0 || m == 255 || m == 0x11 || m == 0x22 || m == 0x44 || m == 0x88 || m == 0x5a || m == 0xa5 || m == 0x0f || m == 0xf0 || m == 0x33 || m == 0xcc || m == 0x01 || m == 0x10 || m == 0x81 || m == 0x7e)) continue;
        for (int sm : {0, 2}) { Cfg g; g.mask = m; g.N = N; g.sm = sm; g.K = 2; g.fmode = 8; g.rho = (m & 1) ? 0.0009765625 : 0.0; if (sm == 2 && !(th || m == 255 || m == 0x11)) continue; unit_do(g); }
        if (m == 255 || m == 0x11 || m == 0) { Cfg g; g.mask = m; g.N = N; g.sm = 0; g.K = 2; g.fmode = 1; g.rho = 0.0; g.far = true; unit_do(g); }
        if (m == 255 || m == 0x11 || m == 0) for (int ms = 0; ms < 2; ++ms) { Cfg g; g.mask = m; g.N = N; g.sm = 0; g.tm = 1; g.K = 1; g.fmode = 10; g.rho = 0.0; g.ms1 = true; g.tcmode = ms ? 1 : 0; unit_do(g); } }
      return;
    }
    // C07 / C08: (a) all 256 masks x N 1..3 with defaults (DIM <= 2 in quick)
    if (D <= 2 || th) for (int N = 1; N <= (th ? 4 : 3); ++N) for (unsigned m = 0; m < 256; ++m) { Cfg g; g.mask = m; g.N = N; unit_do(g); }
    // (b) every remaining axis swept with the others at default, for 4 representative masks
    for (int N = 1; N <= (th ? 6 : 5); ++N) for (unsigned m : {0u, 255u, 0x11u, 0x5au}) {
      for (int tm = 0; tm < 3; ++tm) for (int sm = 0; sm < 4; ++sm) { Cfg g; g.mask = m; g.N = N; g.tm = tm; g.sm = sm; unit_do(g); }
      for (int f = 0; f <= 10; ++f) for (double rho : {0.0, 0.25}) for (int K : {1, 2, 3, 8, 49}) { if (K == 49 && !(f == 8 && rho > 0)) continue;   /* 49 * (1.0/49) < 1 in double */ if (!th && N > 3 && !(K == 3 || f == 8)) continue; Cfg g; g.mask = m; g.N = N; g.fmode = f; g.rho = rho; g.K = K; unit_do(g); }
      for (int t0i = 1; t0i < 3; ++t0i) for (int tcm = 0; tcm < 3; ++tcm) { Cfg g; g.mask = m; g.N = N; g.t0i = t0i; g.tcmode = tcm; g.wcmode = tcm & 1; g.fmode = 9; unit_do(g); }
      for (int K : {1, 3}) for (int f : {11, 5}) { Cfg g; g.mask = m; g.N = N; g.fmode = f; g.K = K; g.origin = true; unit_do(g); }   // state exactly 0 at a sample (identity spatial map)
      if (th) for (int K : {7, 49, 64}) { Cfg g; g.mask = m; g.N = N; g.K = K; g.fmode = 9; g.rho = 0.0009765625; unit_do(g); }
    }
    // (d) long problems: segment counts around powers of two (executor chunking, blocked loops) and (e) EVERY step count K = 1..70 of the
    //     quadrature on one small problem (a weight or step that is wrong for one particular K)
    for (int N : {8, 9, 15, 16, 17, 32, 33}) for (unsigned m : {0u, 255u}) { if (!th && (N == 9 || N == 15)) continue; Cfg g; g.mask = m; g.N = N; g.fmode = 8; g.rho = 0.25; g.K = 3; unit_do(g); }
    for (int K = 1; K <= 70; ++K) { Cfg g; g.mask = 0x5a; g.N = 2; g.fmode = 8; g.rho = 0.25; g.K = K; unit_do(g); }
    // a reference duration of exactly 1 ms (the acceptance limit): the perturbed vector then decodes to a duration BELOW it, which evaluate() must
    // honour in the cost and in the gradient alike (seeded changes C19-m10 / C07-m11: durations clamped from below in the decode only)
    for (int N : {1, 2}) for (unsigned m : {0u, 255u}) for (int tm : {0, 1}) { Cfg g; g.mask = m; g.N = N; g.tm = tm; g.fmode = 8; g.rho = 0.0; g.K = 3; g.ms1 = true; unit_do(g); }
    // (c) thorough: full product of the configuration axes for N <= 3, DIM <= 2
    if (th && D <= 3) for (int N = 1; N <= 3; ++N) for (unsigned m = 0; m < 256; ++m) for (int tm = 0; tm < 3; ++tm) for (int sm = 0; sm < 4; ++sm) for (int f : {8, 9, 10}) for (double rho : {0.0, 0.25}) for (int K : {1, 3}) { Cfg g; g.mask = m; g.N = N; g.tm = tm; g.sm = sm; g.fmode = f; g.rho = rho; g.K = K; unit_do(g); }
  });
}
