"""Registry of checks: which translation units / variants / shards make up each property's check."""

def dims(tier, quick=(1, 2, 3, 4, 8), thorough=tuple(range(1, 11))):
    return thorough if tier == "thorough" else quick

def job(src, name, defs=(), **kw):
    j = {"src": "checks/" + src, "name": name, "defs": list(defs)}
    j.update(kw)
    return j

def per_dim(src, stem, tier, **kw):
    q = kw.pop("quick", (1, 2, 3, 4, 8)); t = kw.pop("thorough", tuple(range(1, 11)))   # 8: the first dimension of DIM >= 8 code paths
    return [job(src, "%s_d%d" % (stem, d), ["-DVDIM=%d" % d], weight=d, **kw) for d in dims(tier, q, t)]

ASSUME_COMMON = [
    "g++ 12 / Eigen 3.4 / x86-64 SSE2 arithmetic, -O1 -ffp-contract=off, no -ffast-math, no -march=native",
    "long double (x87 80-bit) arithmetic of the reference models",
    "continuous input domains are covered on the finite lattices of DESIGN.md s4; completeness arguments L/P/S where stated",
]

CHECKS = {}

CHECKS["C01"] = {
    "engine": "E1 lattice explorer",
    "jobs": lambda tier: per_dim("C01.cpp", "C01", tier),
    "rule": "unit = (order, duration alphabet, N, duration word, scale, start time); every unit runs the full data basis (each unit waypoint / boundary component, rotated per coordinate) + generic dyadic data through all 4 construction routes; distinct = distinct axis tuples; non-trivial = N >= 2 (a linear system is solved) Also: waypoints and boundary states read back through the hinted overloads with one carried hint; the first trajectory access after update() rotates through the four accessors; long splines N in {31,32,33,64,128}. Start-time letter -3.7 (neither dyadic nor representable in single precision); route 6: an object that first held a problem two segments larger.",
    "bounds": {"quick": "3 orders x DIM {1,2,3,4,8} x N 1..5 x all 3^N duration words (dyadic alphabet; plus the nearly-equal alphabet {1-2^-21, 1, 1+2^-22} for N <= 4) x 3 start times x full data basis x 5 routes",
               "thorough": "3 orders x DIM 1..10 x (N 1..8 all 3^N words; N 9,10 all 2^N words) x 3 scales x 4 start times + jittered alphabet N<=6, full data basis x 4 routes"},
    "thresholds": {"interp/bc scaled residual (cubic/quintic/septic)": [1e-12, 1e-11, 1e-9], "routes": "bitwise"},
    "assumptions": ASSUME_COMMON,
    "technique": "bounded exhaustive enumeration of the input/configuration lattice on the real code (explicit-state, no sampling), oracle = exact polynomial calculus on published coefficients",
    "level_text": "every case of the stated finite lattice (orders x DIM x N x all duration words x start times x complete data basis x 4 construction routes) is executed on the real classes and checked; by linearity in the data the basis covers all waypoint/boundary values for those durations",
}

TECH_E1 = "bounded exhaustive enumeration of the input/configuration lattice executed on the real code (explicit-state, no sampling)"

CHECKS["C02"] = {
    "engine": "E1 lattice explorer",
    "jobs": lambda tier: per_dim("C02.cpp", "C02", tier),
    "rule": "unit = (order, duration alphabet, N, duration word, scale); every unit compares the published coefficients for the full data basis + generic data with the dense long-double solve R1 and checks continuity of derivatives 0..2s-2 at every interior knot; for N<=3 (quick) / N<=4 (thorough), DIM<=2 the oracle R1 is itself cross-checked against the KKT minimiser R1'; non-trivial = N >= 2 Also: history variant 3 (same N, start and end, reversed durations); a trajectory reference taken before update() shows the new coefficients; long splines N in {31,32,33,64}; tight thresholds on equal-duration cases.",
    "bounds": {"quick": "3 orders x DIM {1,2,3,4,8} x N 1..5 x all 3^N duration words (dyadic alphabet; plus the nearly-equal alphabet {1-2^-21, 1, 1+2^-22} for N <= 4) x full data basis",
               "thorough": "3 orders x DIM 1..10 x (N 1..8 all 3^N words; N 9,10 all 2^N words) x 3 scales + jittered alphabet N<=6, full data basis"},
    "thresholds": {"coef vs R1, scaled by the solution magnitude (cubic/quintic/septic)": [3e-9, 1e-8, 1e-6], "continuity": [1e-9, 3e-7, 1e-5], "R1' vs R1": 1e-9},
    "assumptions": ASSUME_COMMON + ["'minimises among all sufficiently smooth curves' is decided through the observable clause (C^{2s-2} continuity + agreement with the unique minimiser) and the finite-dimensional variational cross-check R1'"],
    "technique": TECH_E1 + "; oracle = independent dense long-double solve of the optimality conditions, itself validated against a KKT solve of the optimisation problem",
    "level_text": "every case of the finite lattice is executed and compared coefficient by coefficient with an independent reference; by linearity in the data the basis covers all data for those durations; structure classes N=1/2/3/>=4 all enumerated",
}

CHECKS["C18"] = {
    "engine": "E1 lattice explorer",
    "jobs": lambda tier: per_dim("C18.cpp", "C18", tier, quick=(1, 4, 8), thorough=(1, 3, 4, 8)),
    "rule": "unit = (order, ratio r, alphabet, N, duration word); durations {1/sqrt r, sqrt r} (all 2^N placements) and {1/sqrt r, 1, sqrt r} (all 3^N); every unit computes, in long double from the published coefficients, the scaled residual of every defining equation (interpolation, boundary state k, continuity of derivative k) for the full data basis + generic data + the generic data in a frame far from the origin (offsets 482113 / 4431207); non-trivial = the word contains both the shortest and the longest letter (ratio actually attained)",
    "bounds": {"quick": "3 orders x DIM {1,4,8} x r in {2,4,8,16,32,50,64,100} x (N 2..8 all 2^N words + N 2..4 all 3^N words at scale 1; N 2..7 two-letter words at scales 2^-6, 2^6, 2^10) x full data basis",
               "thorough": "3 orders x DIM {1,3,4,8} x r in {2,4,8,16,32,50,64,100} x (N 2..12 all 2^N words + N 2..7 all 3^N words at scale 1; N 2..7 two-letter words at scales 2^-6, 2^6, 2^10) x full data basis"},
    "thresholds": {"scaled residual (the property's own)": 1e-3},
    "assumptions": ASSUME_COMMON,
    "technique": TECH_E1 + "; oracle = long-double residuals of the defining equations; failures matched tuple-by-tuple against known_findings.txt",
    "level_text": "every placement of short/long segments up to N=10 (2 letters) / N=6 (3 letters) at 8 ratios up to 100 is executed; residuals of all defining equations computed in extended precision; the septic high-order-continuity loss (F1) is a recorded known finding, everything outside its region is reported",
}

def grad_jobs(prop, tier):
    q = (1, 2, 3, 4, 8); t = (1, 2, 3, 4, 5, 8, 10)
    return [job("grad_checks.cpp", "%s_d%d" % (prop, d), ["-DVDIM=%d" % d, "-DVPROP=%d" % int(prop[1:])], weight=d) for d in dims(tier, q, t)]

CHECKS["C05"] = {
    "engine": "E1 lattice explorer",
    "jobs": lambda tier: grad_jobs("C05", tier),
    "rule": "unit = (order, N, duration word, scale); every unit calls propagateGrad with EVERY unit upstream vector (each coefficient entry of each coordinate, each duration) for the full data basis + generic data and compares each output with the exact Jacobian of the reference construction map (jets through the dense long-double solve); plus, per unit, all call sequences of length <= 3 over 4 upstream vectors vs a fresh object (bitwise), value vs reference overload (bitwise), linearity; non-trivial = N >= 2 Also: reference overload handed a Gradients object that last held a larger problem, and called in place (g.times input and output); long splines N in {31,32,33(,64)} against a windowed reference Jacobian; tight thresholds on equal-duration cases.",
    "bounds": {"quick": "3 orders x DIM {1,2,3,4,8} x (N 1..4 all 3^N words, N 5 all 2^N words) x full data basis x all unit upstream vectors",
               "thorough": "3 orders x DIM {1,2,3,4,5,10} x (N 1..6 all 3^N words; N 7..9 all 2^N words) x 3 scales x full data basis x all unit upstream vectors"},
    "thresholds": {"normalised Jacobian error (cubic/quintic/septic)": [1e-8, 1e-7, 1e-6], "history/overload": "bitwise", "linearity": "10 x the Jacobian threshold (rounding of the same solves)"},
    "assumptions": ASSUME_COMMON,
    "technique": TECH_E1 + "; by linearity the unit upstream vectors are ALL upstream gradients; oracle = forward-mode jets through an independent dense solve",
    "level_text": "the full transpose-Jacobian is assembled from the library on every lattice case and compared entry by entry with an independent exact Jacobian; covers N=1, N=2, both septic DIM branches (DIM<=3, DIM>3) and the column-major 1-D layout",
}
CHECKS["C06"] = {
    "engine": "E1 lattice explorer",
    "jobs": lambda tier: grad_jobs("C06", tier),
    "rule": "unit = (order, N, duration word, scale); every unit compares getEnergyGrad (and the individual getters, bitwise among themselves), the partial gradients (vs exact formulas on the published coefficients) and propagateGrad(partials) with d(reference energy)/d(input) obtained from the reference model only, for the data basis, basis pairs (energy is quadratic) and generic data; non-trivial = N >= 2 Also: propagated partials through the reference overloads in place; long splines; tight thresholds on equal-duration cases.",
    "bounds": {"quick": "3 orders x DIM {1,2,3,4,8} x (N 1..4 all 3^N words, N 5 all 2^N words) x basis + neighbouring basis pairs + generic",
               "thorough": "3 orders x DIM {1,2,3,4,5,10} x (N 1..7 all 3^N words; N 8,9 all 2^N words) x 3 scales x basis + all basis pairs + generic"},
    "thresholds": {"normalised gradient error (cubic/quintic/septic)": [1e-7, 1e-7, 1e-6], "partials vs closed form": 1e-11},
    "assumptions": ASSUME_COMMON,
    "technique": TECH_E1 + "; oracle = jets of the reference energy (independent of the library's coefficients) + exact closed forms on published coefficients",
    "level_text": "total derivatives of the reference energy w.r.t. every duration, waypoint and boundary component are compared with the library on every lattice case, with non-zero boundary derivatives included through the basis",
}

CHECKS["C04"] = {
    "engine": "E1 lattice explorer",
    "jobs": lambda tier: per_dim("C04.cpp", "C04", tier),
    "rule": "(a) injected coefficients: unit = (order, 1 or 3 segments, pair of coefficient rows (j,k), one of 9 + 4 extreme durations 2^-40..2^20) -> getEnergy vs exact product integration; by bilinearity in the coefficients and polynomial identity in T (degree <= 7 < 9 points) this fixes every weight and power of the closed form; (b) public route: unit = (order, N, duration word, scale) -> getEnergy vs exact integral of the published polynomials for the data basis + generic data, non-negativity, sum over coordinates (vs D one-dimensional splines); non-trivial = the unit involves at least one coefficient row entering the energy Also: long splines N in {15..17,31..33,63..65,96,128}; every third problem the long-lived object first holds the reversed durations (checked too); energy of objects that reached the problem through a history (larger queried problem, reversed durations), bitwise.",
    "bounds": {"quick": "3 orders x DIM {1,2,3,4,8}; injected: all row pairs x 13 T x {1,3} segments; public: (N 1..4 all 3^N words, N 5,6 all 2^N) x 6 scales 2^-30..2^10 x full data basis, fresh + re-fitted object",
               "thorough": "3 orders x DIM 1..10; injected as quick; public: (N 1..7 all 3^N words, N 8..10 all 2^N) x 8 scales 2^-30..2^10 x full data basis, fresh + re-fitted object"},
    "thresholds": {"relative to sum of |terms| of the exact integral": 1e-12},
    "assumptions": ASSUME_COMMON + ["injected-coefficient route writes the private members coeffs_/time_segments_/time_powers_ through -fno-access-control"],
    "technique": TECH_E1 + "; oracle = exact product integration of the published polynomials in long double; completeness by bilinearity + polynomial identity",
    "level_text": "closed-form energy compared with exact integration on a complete set of coefficient-row pairs at more durations than the polynomial degree (so the formula itself is pinned), and on every solver-produced coefficient set of the lattice",
}

CHECKS["C13"] = {
    "engine": "E1 lattice explorer",
    "jobs": lambda tier: per_dim("C13.cpp", "C13", tier, quick=tuple(range(1, 11)), thorough=tuple(range(1, 11))),
    "rule": "unit = (order, N, duration word, scale); every unit builds the D-dimensional spline (generic data with a different vector per coordinate, and data confined to one coordinate) and the D one-dimensional splines of its coordinates and compares coefficients, evaluations, propagated point/boundary gradients and energy gradients coordinate by coordinate, energy / duration gradients as sums over coordinates, and repeats under every cyclic shift and one transposition of the coordinates; the same comparison on objects reached by update() (both overloads) from a fit whose coordinate 0 lies in a map frame (+2^22) while one waypoint / the boundary velocity of the last coordinate moves by 2^-22; non-trivial = D >= 2 The update route also starts from a fit whose coordinates are all zero but one. The public per-dimension aliases name the class of their order and dimension.",
    "bounds": {"quick": "3 orders x D 1..10 x (N 1..5 all 3^N words, N 6 all 2^N)", "thorough": "3 orders x D 1..10 x (N 1..8 all 3^N words, N 9,10 all 2^N) x 3 scales"},
    "thresholds": {"coefficients (C02 metric)": [3e-9, 1e-8, 1e-6], "gradients": "1e3 x that (same algorithm on both sides; measured bit-identical)", "sums (relative to the energy itself)": 1e-9},
    "assumptions": ASSUME_COMMON,
    "technique": TECH_E1 + "; differential oracle = the same class instantiated for DIM=1 per coordinate, and coordinate permutations",
    "level_text": "every lattice case compares the D-dimensional object with its D one-dimensional counterparts, covering the column-major 1-D layout and both septic gradient branches (D<=3, D>3)",
}

CHECKS["C14"] = {
    "engine": "E1 lattice explorer",
    "jobs": lambda tier: per_dim("C14.cpp", "C14", tier, quick=(1, 2, 3, 4, 8), thorough=(1, 2, 3, 4, 5, 8, 10)),
    "rule": "unit = (order, N, duration word, scale); every unit applies, to the full data basis + generic dyadic data: two start-time shifts, fresh and by update() (coefficients/energy/gradients/energy partials bitwise unchanged, knots shifted; values of every derivative order at start + u, the sampled arc length through both overloads and the time grid bitwise unchanged relative to the start), a map-frame shift 1.7e9 + 0.3 on non-dyadic durations, a dyadic translation (row c0 translated, rest unchanged), data x 2^k (exact), durations x 2^k for k in {-6,-2,3,10} with boundary derivatives rescaled (exact, incl. gradient scaling laws), and time reversal (curve on a probe grid for all derivative orders, energy, mirrored gradients); non-trivial = N >= 2 or non-palindromic durations",
    "bounds": {"quick": "3 orders x D {1,2,3,4,8} x (N 1..4 all 3^N words, N 5,6 all 2^N)", "thorough": "3 orders x D {1,2,3,4,5,8,10} x (N 1..8 all 3^N words, N 9,10 all 2^N) x 3 scales"},
    "thresholds": {"power-of-two relations and start shift": "bitwise", "translation / reversal (C02 metric)": [3e-9, 1e-8, 1e-6]},
    "assumptions": ASSUME_COMMON,
    "technique": TECH_E1 + "; metamorphic oracles (no reference model): exact power-of-two scaling laws, shift invariance, time-reversal symmetry",
    "level_text": "every lattice case is transformed five ways and the transformed object compared with the transformed original; time reversal exposes any asymmetry between first-block and last-block special cases",
}

CHECKS["C03"] = {
    "engine": "E1 lattice explorer + E2 history exploration of the hint protocol",
    "jobs": lambda tier: [job("C03.cpp", "C03")],
    "rule": "unit = configuration (DIM in 1..3, ORDER template in {Dynamic,4,6,8,12}, coefficient count 1..12 where allowed, segments in {1,2,3,31,32,33,40}, breakpoint variant incl. one repeated breakpoint); every unit sweeps t over {every breakpoint, one ulp either side, midpoints, far outside} x k = 0..count+1 and compares the plain route with the exact-polynomial oracle on the piece chosen by the half-open rule, and every other route (hinted from EVERY hint value in {INT_MIN,-5,-1,0..n-1,n,n+7,INT_MAX}, batch, []/at()/iterator + local time, Deriv enum, derivative(j).evaluate(t,k-j) for every j<=k) bitwise with the plain route; hint must equal the piece index afterwards; the only state between hinted calls is the caller's int, so the single-step sweep over all hint values is the complete transition relation (argument S); confirmed directly by all hinted call sequences of length <=3 (n=3) / <=2 quick, <=3 thorough (n=33); non-trivial = coefficient count >= 2 Also: derivative() call sequences that return the same coefficient count from different orders (chains, repeats) compared bitwise with earlier results; post-increment / decrement iterators.",
    "bounds": {"quick": "1428 configurations; hint histories: 12^3 (n=3), 138^2 (n=33)", "thorough": "1836 configurations (segments also 64 and 100); hint histories: 12^3 (n=3), 138^3 (n=33)"},
    "thresholds": {"plain value vs exact oracle": "8*count ulp of sum|terms| + |p'| 2 ulp(t)", "between routes": "bitwise"},
    "assumptions": ASSUME_COMMON,
    "technique": "bounded exhaustive enumeration of configurations x inputs x hint values (complete transition relation of the hint protocol) + exhaustive hinted-call sequences to depth 3 on the real code; oracle = exact polynomial calculus",
    "level_text": "all configurations crossing the static-table limit (8 coefficients) and the linear/binary search threshold (32 segments), all breakpoint-adjacent floating-point inputs, all hint values; routes compared bitwise",
}

TECH_E2 = "explicit-state breadth-first search over operation histories on the real objects (state = history replayed on fresh objects, de-duplicated on the full private state), run to fixpoint or a stated depth"

CHECKS["C11"] = {
    "deadline": {"quick": 1500, "thorough": 4800},
    "engine": "E2 history explorer",
    "jobs": lambda tier: [job("C11.cpp", "C11_w%d" % w, ["-DVWORLD=%d" % w], shards=1) for w in range(6)],
    "rule": "state = operation history over {update with 6 data sets (same shape / other segment count / other coefficient count / two invalid), evaluate at orders 0/1/top/beyond, hinted evaluate, derivative trajectory, copy-assign, copy-construct, self-assign, swap roles, ...} for PPolyND<2,Dynamic>, PPolyND<2,8>, PPolyND<1,12>, and {update via both overloads with 4 problems, evaluate trajectory, getTrajectoryCopy, copy-assign/construct spline, update copy, propagateGrad, ...} for the three spline classes; after EVERY transition every live object must evaluate (all orders, probe grid, plain + hinted) bit-identically to a fresh object built from its own latest data; distinct = distinct canonical keys (entire private state incl. lazy caches and ready flags); non-trivial = histories of length >= 2 PPolyND worlds: self-aliased updates (the object's own breakpoints / coefficients handed back with the other argument from another data set), a fixed absolute probe time for the history's evaluate operations (checked first); spline worlds: a trajectory reference taken once before all updates is observed first. Round 7, long silent runs (one parameter swept instead of the history length): after the caches were filled once, n consecutive updates with no evaluation in between, for EVERY n = 1..70000 with a copy (copy constructor / getTrajectoryCopy()) evaluated after each update, and for every n <= 600 (thorough 1100) separately with the object itself evaluated after exactly n updates; two update patterns per world (same shape only / shapes and start times change; spline worlds alternate both update overloads and query getEnergy() in between, as an optimizer loop does); a counter or revision stamp that wraps (8 or 16 bits) serves a stale cache exactly there (seeded change C11-m12).",
    "bounds": {"quick": "PPolyND worlds: BFS to depth 8 or fixpoint; spline worlds: BFS to depth 6 (all histories of length <= 3 without de-duplication); silent-update runs: every n <= 70000 (copy observed), every n <= 600 (object observed), 2 patterns x 6 worlds", "thorough": "6 worlds, BFS to depth 20 or fixpoint; silent-update runs: every n <= 70000 (copy observed), every n <= 1100 (object observed), 2 patterns x 6 worlds"},
    "thresholds": {"all comparisons": "bitwise"},
    "assumptions": ASSUME_COMMON + ["canonical key reads private members through -fno-access-control"],
    "technique": TECH_E2 + "; oracle = fresh-object differential (R5), bitwise",
    "level_text": "the reachable state graph of the update/evaluate/copy/derivative alphabet is explored exhaustively; the evidence states whether the fixpoint was reached (then the invariant holds for histories of any length)",
}

def c10_jobs(tier):
    js = []
    for o in (2, 3, 4):
        for d in (1, 3, 4):
            js.append(job("C10.cpp", "C10_s%d_d%d" % (o, d), ["-DVORDER=%d" % o, "-DVDIM=%d" % d], shards=1, weight=o * d))
        js.append(job("opt_hist.cpp", "C10_ws_s%d" % o, ["-DVPROP=10", "-DVORDER=%d" % o], shards=1, weight=30))
        js.append(job("opt_hist.cpp", "C10_optobj_s%d" % o, ["-DVPROP=9", "-DVORDER=%d" % o], shards=1, weight=20))   # optimizer OBJECT histories (same binary as C09's history part)
        js.append(job("opt_long.cpp", "C10_long_s%d" % o, ["-DVORDER=%d" % o], shards=1, weight=5))   # long runs: one parameter swept to 70000 (round 7)
    return js

CHECKS["C10"] = {
    "engine": "E2 history explorer",
    "deadline": {"quick": 1500, "thorough": 4800},
    "jobs": c10_jobs,
    "rule": "state = history over {update by durations / by time points with 5 problems (N = 1, 2, 3, 5 whose durations are bit-identical prefixes of one another, and N = 3' with other durations), getEnergy, getEnergyGrad, partial gradients, propagateGrad(unit / dense), evaluate grid} and hinted evaluations that keep the caller-held hint across updates (inside the first segment / every knot ascending / end time) on one spline object; after EVERY transition ALL observables (evaluations of the long-lived object go through the hinted overload starting from the current hint; the fresh object is queried un-hinted) (coefficients, knot times, energy, energy gradients, partials, propagateGrad for two upstream vectors, evaluations at all orders) are compared bitwise with a freshly constructed spline given only the latest inputs; canonical key = every private member incl. factor caches and workspaces; optimizer workspaces: one Workspace shared by evaluations of four optimizers (A: N=2 / B: N=4 / C: N=2 with other data, flags, start time and energy weight / D: identical to A except for the FIXED boundary accelerations/jerk, evaluated at A's bit-identical decision vectors) x 2 decision vectors x {2-cost, 3-cost overload}: after EVERY history every possible next call on the reused workspace equals the same call on a fresh workspace (cost, gradient, workspace spline; bitwise); non-trivial = histories of length >= 2 The long-lived spline is observed through the hinted overloads from the caller-held hint and through the REFERENCE-OUTPUT overloads handed used caller objects (exactly fitting dirty buffer, buffer of a larger problem, Gradients filled for N + 2); a sixth problem has the N = 3 problem's end knots and other inner knots. Round 7, long runs (opt_long.cpp; one parameter swept instead of the history length, for counters / stamps / grow-only buffers that misbehave only after hundreds or thousands of uses): (w) the n-th evaluation on one long-lived explicit workspace and on the built-in workspace, two optimizers and four decision vectors alternating, every n = 1..70000 equal to a fresh workspace bitwise; (r) n reconfigurations (flags / initial state) with no query in between, every n = 1..70000: a copy reports the layout model's dimension (every n) and evaluates like a freshly configured optimizer (n < 600 and every 64th n).",
    "bounds": {"quick": "splines: 3 orders x DIM {1,3,4}: BFS to depth 6 or fixpoint; workspaces: 3 orders, BFS to depth 4; optimizer objects (setter/query/re-initialisation histories, fresh-object oracle): 3 orders, BFS to depth 5; long runs: every n <= 70000, 3 orders", "thorough": "splines: BFS to depth 10 or fixpoint; workspaces: 3 orders, BFS to depth 5 or fixpoint; optimizer objects: BFS to depth 8 or fixpoint; long runs: every n <= 70000, 3 orders"},
    "thresholds": {"all comparisons": "bitwise"},
    "assumptions": ASSUME_COMMON + ["canonical key reads private members through -fno-access-control"],
    "technique": TECH_E2 + "; oracle = fresh-object differential (R5), bitwise",
    "level_text": "all histories of growing/shrinking updates (both overloads, incl. N=1 and N=2) interleaved with every read-only query up to the stated depth; read-only queries are shown not to change any later observable",
}

CHECKS["C20"] = {
    "engine": "E1 lattice explorer",
    "jobs": lambda tier: [job("C20.cpp", "C20")],
    "rule": "states = distinct (start, end, dt) triples + trajectories + factory calls; (1) unit = (start in {0,0.3,-1.5,100,5000,-7000}, length in {0,2^-20,0.5,1,2.5,10}, residue class of k): every dt = length/k for k = 1..1024 (quick) / 16384 (thorough), each also x(1+-2^-40) and x(1+-1e-7), plus, for k <= 512, dt = (length - rem)/k for rem in {5e-7,2e-6,2e-5,2e-4,2e-3} (k steps falling short by a chosen remainder), plus dt in {1.5 length, 1e-3, 0.01, 0.1, 0.3}: first sample = start exactly, sample i = start + i dt, strictly increasing, none beyond end+1e-6, last within 1e-6 of end, end appended iff short by > 1e-6, final step <= dt; (2) unit = cubic/quintic/septic trajectory (DIM 1 and 3, N in {1,2,3,5}, duration words): batch = pointwise (bitwise), getTrajectoryLength (3 overloads; full range, sub-range, zero length; 4 steps) = left Riemann sum of speed and within dt*int|a| of the Gauss-Legendre arc length; (2b) PPolyND polylines whose speed jumps at every breakpoint, samples landing exactly on breakpoints: length = left Riemann sum with right-continuous speed; (3) unit = factory call zero()/constant() on 6 breakpoint vectors x coefficient count 1..12: initialised on the breakpoints, all derivatives at all probe times exactly 0 / (v,0,0,...); non-trivial = non-degenerate interval / valid breakpoints Also: steps of 5e-7, 2^-20, 1e-6, 2e-6 on short windows. Round 7: zero() with EVERY coefficient count 13..200 (Dynamic, DIM 1), every derivative order 0..n+1 at 6 times (incl. outside the range); a failure is attributed to the known finding F3 only where the falling factorial (n-1)!/(n-1-k)! really exceeds DBL_MAX (computed in long double), any other failure is a violation.",
    "bounds": {"quick": "384 sequence units (about 123k sequences), 9 duration words per (order, DIM, N), 4 factory instantiations, zero() with 13..200 coefficients", "thorough": "384 sequence units (about 1.97M sequences), all 3^N duration words for N in {1,2,3,5}, 4 factory instantiations, zero() with 13..200 coefficients"},
    "thresholds": {"sequence contract": "exact / 1e-6 as stated by the property (borderline band 1e-12 excluded)", "length vs Riemann sum": 1e-12, "length vs true arc length": "dt * integral of |a| + 1e-9 relative"},
    "assumptions": ASSUME_COMMON + ["16-point Gauss-Legendre on 8 sub-intervals per piece as the true arc length"],
    "technique": TECH_E1 + "; every nearly-dividing step k <= 4096 enumerated (the floating-point floor is at risk exactly there)",
    "level_text": "the step-count contract is checked for every k up to the bound and both signs of two perturbation sizes, i.e. on exactly the inputs where floor(duration/dt) can go either way",
}

CHECKS["C17"] = {
    "engine": "E1 lattice explorer",
    "jobs": lambda tier: [job("C17.cpp", "C17")],
    "rule": "states = distinct floating-point inputs; unit = one exponent of the mantissa/exponent lattice (tau = +-m 2^e, T = m 2^e, 16 four-bit mantissas, e in [-60,19], capped at 1e6) or one exponent of the approach lattices c +- m 2^e, e in [-52,-1], towards each critical point c, or one block of 8192 CONSECUTIVE doubles around a critical point (tau around 0 incl. denormals and both signs, +-1, +-1e6; T around 1, 1e-6, 1e6); at every point: toTime > 0 and equal to the closed form (1e-14), toTime(tau) <= toTime(next double), toTime(tau + 16 ulp) > toTime(tau), backward = g T'(tau) (1e-14), linear in g and exactly homogeneous for g = +-2^k, k in [-900, 900], toTau(toTime tau) = tau and toTime(toTau T) = T (1e-12), toTau monotone; one-sided derivatives and difference quotients at the switch; identity map bitwise; the maps as the optimizer uses them: for ALL words of length <= 3 over the durations {1 ms, 1 ms (1+2^-31), 1-2^-32, 1, 1+2^-31, 3600 s} the time block of generateInitialGuess() is toTau(T_i) and evaluate() decodes x_i to toTime(x_i), entry by entry (bitwise); non-trivial = every unit Part (5) also: decode at the initial guess, below it (durations under 1 ms) and after a warm start is toTime(x_i) bitwise; with an energy weight the time entries of the gradient are backward(x_i, T_i, dCost/dT_i) of the workspace's complete duration gradient (within 8 ulp: backward(x, T, 1) * g is an equally correct use); an optimizer assigned after other use hands out toTau of the new durations.",
    "bounds": {"quick": "2560 lattice points (4-bit mantissas) + approach lattices + 2^17 consecutive doubles around each of 8 critical points", "thorough": "40960 lattice points (8-bit mantissas) + approach lattices + 2^21 consecutive doubles around each of 8 critical points"},
    "thresholds": {"closed form / backward": 1e-14, "round trips": 1e-12, "monotone": "exact between adjacent doubles; strict at 16 ulp"},
    "assumptions": ASSUME_COMMON,
    "technique": "bounded exhaustive enumeration of a floating-point input lattice incl. all consecutive doubles around the branch points, on the real code",
    "level_text": "every floating-point number in the stated neighbourhoods of the switch points and a 4-bit-mantissa lattice over |tau| <= 1e6, T in [1e-6,1e6] is evaluated",
}

def opt_jobs(prop, tier, dimsq=(1, 2, 3, 4), dimst=(1, 2, 3, 4)):
    js = []
    for d in dims(tier, dimsq, dimst):
        for o in (2, 3, 4):
            js.append(job("opt_checks.cpp", "%s_d%d_s%d" % (prop, d, o), ["-DVDIM=%d" % d, "-DVORDER=%d" % o, "-DVPROP=%d" % int(prop[1:])], weight=d * o))
    return js

ASSUME_OPT = ASSUME_COMMON + ["user functors follow the documented protocol (explicit time dependence only through t_global; no dependence on local time)",
                              "harness maps: AffSq time map (T = a + tau^2), Scale / Proj (dof = DIM-1 at odd points) / Tanh spatial maps; bundled QuadInv / Identity maps"]

CHECKS["C07"] = {
    "engine": "E1 lattice explorer",
    "jobs": lambda tier: opt_jobs("C07", tier),
    "rule": "unit = optimizer configuration (order, DIM, N, 8 flag bits, time map, spatial map, energy weight, integration steps K, running-cost functor from the generating set {p^2,v^2,a^2,j^2,s^2,p.v,g(t_global),segment weight,ALL x t_g^2,ALL x (1+sin t_g/4),zero}, start time, time/waypoint cost form); every unit evaluates at the initial guess and at a perturbed decision vector and compares EVERY gradient component with 4th-order Richardson central differences of the value returned by evaluate itself (two step sizes; their difference is the error bar), and the built-in workspace with an explicit one (bitwise); non-trivial = at least one flag set or N >= 2 Also: an optimizer assigned from this one after serving another problem, and descending / even-odd user executors on a workspace that last served another vector, return the same cost and gradient bitwise; long problems N in {8,16,17,32,33}; every K = 1..70. A reference duration of exactly 1 ms with both bundled time maps (the perturbed vector decodes below it).",
    "bounds": {"quick": "DIM 1..4 x 3 orders: all 256 flag masks x N 1..3 (DIM<=2) + per-axis sweeps (12 map pairs; 11 functors x 2 rho x 4 K; start times x cost forms) for 4 masks x N 1..5",
               "thorough": "as quick with N up to 6, K up to 64, all 256 masks x N 1..4 for every DIM, plus the full product 256 masks x 12 map pairs x 3 functors x 2 rho x 2 K for N 1..3, DIM <= 3"},
    "thresholds": {"|analytic - FD| <= max(10 x Richardson error bar, 1e-6 x largest gradient entry)": "observed 1e-9 of the largest entry"},
    "assumptions": ASSUME_OPT,
    "technique": TECH_E1 + "; oracle = Richardson-extrapolated differences of the optimizer's own cost, per decision variable",
    "level_text": "all 256 flag combinations x 3 orders and every other configuration axis swept exhaustively; each gradient component is checked against the cost the same call returns; the functor generating set has one member per channel the optimizer treats linearly",
}
CHECKS["C08"] = {
    "engine": "E1 lattice explorer",
    "jobs": lambda tier: opt_jobs("C08", tier),
    "rule": "unit = optimizer configuration as in C07; a recording running-cost functor stores every sample: exactly (K+1)N samples, segment index, local time k T_i/K, global time = start + elapsed + t, p/v/a/j/s = derivatives 0..4 of the workspace spline's published piece (exact polynomial calculus); returned cost = time + waypoint + trapezoid(recorded samples) + rho x getEnergy (1e-12) and = the reference model's cost from the decoded inputs through the dense long-double spline solve; decode of x checked against the layout model; two-cost overload = three-cost overload with a zero waypoint cost; getOptimalSpline after a built-in-workspace evaluation; basis rows of computeBasisFunctions vs falling factorials at 9 t values Also: descending / even-odd user executors give the same cost, gradient and (segment, t, t_global) samples bitwise; a second evaluation on the same workspace after changing only a boundary-derivative entry of x; long problems; every K = 1..70. A reference duration of exactly 1 ms with both bundled time maps.",
    "bounds": {"quick": "same configuration set as C07 quick", "thorough": "same configuration set as C07 thorough"},
    "thresholds": {"sample state": 1e-11, "cost decomposition": 1e-12, "cost vs reference model (cubic/quintic/septic)": [1e-8, 1e-7, 1e-6]},
    "assumptions": ASSUME_OPT,
    "technique": TECH_E1 + "; oracle = reference optimizer model R4 (layout, decode, trapezoid quadrature, energy) over the dense reference spline + exact calculus on published coefficients",
    "level_text": "every configuration is evaluated with a recording functor and the cost is re-assembled independently, so an error that changes cost and gradient together (invisible to C07) is visible",
}
CHECKS["C09"] = {
    "engine": "E1 lattice explorer (static part) + E2 history explorer (reconfiguration histories)",
    "jobs": lambda tier: opt_jobs("C09", tier, (1, 2, 3), (1, 2, 3)) + [job("opt_hist.cpp", "C09_hist_s%d" % o, ["-DVPROP=9", "-DVORDER=%d" % o], shards=1, weight=20) for o in (2, 3, 4)],
    "rule": "static: unit = (order, DIM in 1..3, N in 1..6, ALL 256 flag masks, spatial map in {Identity, Proj with dof = DIM-1 at odd points, Tanh}, time map): getDimension = N + sum dof(optimised points) + DIM x #(flagged derivative blocks the order has); generateInitialGuess decodes back to the reference (model decode and through evaluate + getOptimalSpline); a decision vector with pairwise distinct entries 1 + i/64 decodes to exactly the model's slices (unflagged quantities pinned exactly); the exposed spline equals a fresh spline of the decoded inputs (bitwise); history (E2 BFS): ops {setOptimizationFlags (4 masks), setSpatialMap (null / Proj / Scale), setInitState (N=1 / N=3, both overloads), getDimension, generateInitialGuess, evaluate, copy-construct, assign, swap, reconfigure the copy}; after EVERY transition every live optimizer must report the model's dimension for its CURRENT configuration and evaluate bit-identically to a freshly configured equivalent optimizer; canonical key = all private members incl. the lazy layout cache and its dirty flag Round 7: history operation 'user map A reconfigured in place (Proj <-> Scale, the per-point dofs change) and registered again at the same address on every optimizer that uses it' (a setter that returns early for an unchanged pointer keeps the stale layout: seeded change C09-m12).",
    "bounds": {"quick": "static: 3 orders x DIM 1..3 x N 1..6 x 256 masks x {Identity, Proj} (+ Tanh and the other time maps on a sub-lattice of masks); history: 3 orders, BFS to depth 5", "thorough": "static: 3 orders x DIM 1..3 x N 1..6 x 256 masks x 3 spatial maps x 3 time maps; history: 3 orders, BFS to depth 8 or fixpoint"},
    "thresholds": {"layout / pinning": "exact", "initial-guess round trip": 1e-12},
    "assumptions": ASSUME_OPT,
    "technique": TECH_E1 + " + " + TECH_E2 + "; oracle = layout/decode model R4",
    "level_text": "the complete flag x order x N x DIM lattice named by the property is enumerated; reconfiguration histories are explored by BFS over setter/query sequences",
}
CHECKS["C19"] = {
    "engine": "E1 lattice explorer",
    "jobs": lambda tier: opt_jobs("C19", tier, (1, 2), (1, 2, 3)),
    "rule": "(also: a second self-check at another vector on the same explicit/built-in workspace equals the report of a fresh workspace, bitwise; every influential component delivered as NaN and +Inf must give failure) unit = (order, DIM, N in 1..3, flag mask, spatial map, both overloads inside); on problems whose finite-difference noise floor is < tol/100: correct functors -> valid, analytical = evaluate's gradient (bitwise), numerical = harness-recomputed central difference on fresh workspaces (bitwise), error_norm / rel_error per definition, workspace spline afterwards = spline of x (bitwise), explicit and built-in workspace, non-default eps/tol; then for EVERY single output component of the time-cost gradient (N), waypoint-cost gradient ((N+1) DIM) and running-cost gradients (gp,gv,ga,gj,gs per component, gt) a functor with that component off by 4: if the induced analytic-gradient error is >= 10 tol the verdict must be false, if it is exactly 0 the verdict must stay true Also: a failing report is complete (analytical = evaluate's gradient, numerical = the central differences of the correct functor bitwise, norms by definition); a cost quadratic in x with a reference duration of exactly 1 ms is judged valid without any noise model; makeReport() agrees with the verdict.",
    "bounds": {"quick": "3 orders x DIM 1..2 x N 1..3 x 16 flag masks x {Identity, Proj}", "thorough": "3 orders x DIM 1..3 x N 1..3 x 256 flag masks x {Identity, Proj}"},
    "thresholds": {"tol": 1e-4, "eps": 1e-6},
    "assumptions": ASSUME_OPT + ["verdicts are only asserted where the finite-difference noise floor is far below tol"],
    "technique": TECH_E1 + " over configurations x the complete set of single-component functor faults; expected verdict computed independently from two plain evaluations",
    "level_text": "every single gradient component a user functor can get wrong is perturbed in turn, for every enumerated configuration and both overloads",
}

CHECKS["C12"] = {
    "engine": "E3 schedule explorer + free-running ThreadSanitizer pass",
    "deadline": {"quick": 1500, "thorough": 6000},   # the largest thorough unit (3 threads, flags 0xff, cold, bound 3) is 228 462 schedules, about 45 min in one process
    "jobs": lambda tier: [job("C12.cpp", "C12_sched", ["-DVMODE=0"], link=["-lpthread", "-ldl"], weight=5, shards={"quick": 11, "thorough": 16}),
                          job("C12.cpp", "C12_tsan", ["-DVMODE=1"], cxx="clang++", flags=["-fsanitize=thread"], link=["-lpthread"], shards=4,
                              env={"TSAN_OPTIONS": "halt_on_error=1 exitcode=66 report_signal_unsafe=0"}),
                          job("C12.cpp", "C12_omp", ["-DVMODE=2"], flags=["-fopenmp"], link=["-lpthread"], shards=2)],
    "rule": "(a) unit = (order, N, K): ALL N! executor orders vs SerialExecutor, bitwise; (b) unit = assignment of the N segments to worker threads: the workers run under the cooperative scheduler with scheduling points before each segment and inside each running-cost call, ALL interleavings with <= 2 preemptions, bitwise equal to serial; (c) unit = (cold|warm optimizer, flags none|all, user|default maps): 2 (quick) / 3 (thorough) threads each call evaluate(x_j, grad_j, ..., own workspace) on one optimizer, scheduling points at every call-out into the time/spatial map and at every (interposed) pthread mutex lock/unlock, ALL schedules with <= 2 (quick) / <= 3 (thorough) preemptions, each thread's (cost, gradient) bitwise equal to the same call made serially, no deadlock, no crash; (d) the same thread bodies free-running under ThreadSanitizer (a monitor, not an enumeration); (e) built with -fopenmp: the library's own OpenMPExecutor with 1..4 threads vs SerialExecutor for N = 1..8, and 3 concurrent evaluate() calls issued by the threads of one OpenMP parallel region or by std::threads, with OpenMPExecutor (nested) or SerialExecutor, cold and warm, repeated (a monitor as well); distinct = distinct interleaving traces; non-trivial = every E3 unit (d) also: a pool of worker threads that exist before evaluate(), at ordinary and subnormal cost scale, bitwise vs serial; (g) three threads each construct / re-fit / fully query their OWN splines (every public query), bitwise vs the same program alone. (a) also: for every choice of one segment whose running cost is +inf, all executor orders equal the serial result bitwise.",
    "bounds": {"quick": "(a) N <= 5; (b) quintic, N in {2,3}, 2 workers, bound 2; (c) quintic, 2 threads, N=3, bound 2; (d) 20 repetitions x 3 orders", "thorough": "(a) N <= 7; (b) 3 orders, N in {2,3,4}, 3 workers, bound 2; (c) 3 orders, 3 threads, bound 3; (d) 60 repetitions"},
    "thresholds": {"all comparisons": "bitwise"},
    "assumptions": ASSUME_OPT + ["scheduling points are the library's call-outs into harness types and pthread mutex operations; a race between plain loads/stores with no call-out in between is visible only to the ThreadSanitizer pass", "sequentially consistent interleavings only (no weak-memory reorderings)", "OpenMPExecutor is not run under the scheduler (its threads belong to the OpenMP runtime): it is exercised free-running in part (e); the per-segment lambda it executes is explored under the scheduler in part (b)"],
    "technique": "stateless model checking of the implementation: preemption-bounded exhaustive DFS over thread schedules under a cooperative scheduler (iterative context bounding), every execution in a forked child; plus exhaustive enumeration of executor orders/partitions; ThreadSanitizer as a separate free-running monitor",
    "level_text": "all schedules up to the stated preemption bound are executed on the real optimizer; the evidence reports schedules, distinct interleaving traces and the completed bound",
}

CHECKS["C15"] = {
    "engine": "E2 history explorer under AddressSanitizer",
    "deadline": {"quick": 1500, "thorough": 6000},   # 17 operations, all 17^4 histories without de-duplication, under ASan
    "jobs": lambda tier: [job("opt_hist.cpp", "C15_s%d" % o, ["-DVPROP=15", "-DVORDER=%d" % o], shards=1, flags=["-fsanitize=address", "-fno-omit-frame-pointer"], env={"ASAN_OPTIONS": "detect_leaks=0:abort_on_error=1"}) for o in (2, 3, 4)]
                         + [job("C11.cpp", "C15_splinecopies_w%d" % w, ["-DVWORLD=%d" % w], shards=1) for w in (3, 4, 5)],   # spline copies: the spline worlds of C11 (S2 = S1, copy-ctor, copy getters, then updates of either side)
    "rule": "(spline half: the cubic/quintic/septic copy worlds of C11 -- copy construction, assignment, self-assignment, getTrajectoryCopy()/getPPolyCopy() must return distinct objects that survive an update of the source, updates of either side never show through the other) the optimizer is instantiated with STATEFUL harness maps as its default map types (the bundled default maps are empty structs, so a dangling pointer to one would never be dereferenced); heap-allocated optimizers A, B and two user maps; ops {setInitState (2 problems), setTimeMap(user/null), setSpatialMap(user/null), evaluate (creates the built-in workspace), B = new copy of A, B = A (also over a B that owns a workspace), A = A, delete A and continue with the copy, swap, mutate the copy, change the user maps' parameters}; after EVERY transition: pointer roles are as modelled (each active map is the optimizer's OWN default map or the user map, built-in workspaces are not shared), every live optimizer evaluates bit-identically to a freshly configured equivalent one, copies remain usable through their own built-in workspace, AddressSanitizer silent; canonical key = all private members (pointers by role) + workspace contents",
    "bounds": {"quick": "optimizers: 3 orders, BFS to depth 5 (all histories of length <= 3 without de-duplication); spline copies: 3 orders, BFS to depth 6", "thorough": "optimizers: 3 orders, BFS to depth 7 or fixpoint (all histories of length <= 4 without de-duplication); spline copies: BFS to depth 20 or fixpoint"},
    "thresholds": {"all comparisons": "bitwise"},
    "assumptions": ASSUME_OPT + ["g++ AddressSanitizer as the oracle for use-after-free of a destroyed source optimizer", "pointer roles are read through -fno-access-control"],
    "technique": TECH_E2 + "; oracle = fresh-object differential + pointer-role model + AddressSanitizer",
    "level_text": "all histories of copy / assign / mutate / destroy up to the stated depth, before and after the built-in workspace exists, with default and user maps",
}

CHECKS["C16"] = {
    "engine": "E1 lattice explorer + exhaustive initialisation histories",
    "jobs": lambda tier: [job("C16.cpp", "C16")],
    "rule": "unit = (order, DIM in {1,2}, N in {1,2,3}); states = distinct fault placements / initialisation sequences; for EVERY scalar input field (start time, each duration, each waypoint coordinate, each component of the six boundary vectors) x {NaN,+inf,-inf}, 7 duration values on both sides of 1 ms (nextbelow, exact, nextabove, 0, -1, denormal, 0.00099999), 7 size/ordering faults, and all pairs of faults, through both overloads on a fresh optimizer: return value = isValid() = bool(opt) = reference predicate (which knows which boundary fields the order uses), message present iff invalid, checkValidity(&msg) agrees with the predicate on the STORED problem and msg empty iff valid; plus ALL sequences of length <= 3 over 14 initialisations (2 valid problems, 5 invalid kinds, both overloads) on one object; PPolyND: breakpoint counts {0,1,2,5} x coefficient counts {0,1,4,ORDER+1} x row count off by {-1,0,+1} x {constructor, update after a valid state} for 5 instantiations: isInitialized / getNumSegments()==0 / recovery, at(i) throws exactly for i outside [0,n) over {INT_MIN,-2,-1,0..n-1,n,n+1,INT_MAX}",
    "bounds": {"quick": "3 orders x DIM {1,2} x N {1,2,3}: all single faults + all pairs of a reduced fault list, both overloads; 14 + 196 + 2744 histories per (order, DIM); PPolyND: 5 instantiations x all sequences of <= 2 construct/update requests over (breakpoint count, coefficient count, row count)", "thorough": "same (the space is enumerated completely in both tiers); PPolyND request histories to depth 3 instead of 2"},
    "thresholds": {"verdicts": "exact"},
    "assumptions": ["built without -ffast-math (under the suite's flags finiteness checks are unreliable)", "the model keeps the stored problem separately from the verdict: a failed time-point call with an empty vector sets the flag and message but leaves the stored problem (and a later checkValidity()) untouched"],
    "technique": "bounded exhaustive enumeration of fault placements (every field x every non-finite value, threshold-adjacent durations, size faults, all pairs) and of all initialisation sequences to depth 3 on the real code; oracle = validity predicate R4",
    "level_text": "every placement of a non-finite value in every input field and every pair of faults is tried for every order (which decides which boundary fields matter)",
}

NOT_APPLICABLE = {}

ENGINES = [
    {"name": "E1", "path": "engine/common.hpp + engine/splinekit.hpp", "kind_free_text": "lattice explorer: full Cartesian product of finite input/configuration alphabets executed on the real code, compared with reference models (dense long-double solve, jets, exact polynomial calculus), sharded over forked workers with crash attribution",
     "serves_properties": ["C01", "C02", "C04", "C05", "C06", "C07", "C08", "C13", "C14", "C17", "C18", "C19", "C20", "C03", "C09", "C16"]},
    {"name": "E2", "path": "engine/explore.hpp", "kind_free_text": "explicit-state BFS over operation histories on real objects; state = history replayed on fresh objects; de-duplication on a canonical key holding the whole private state; fixpoint or stated depth",
     "serves_properties": ["C03", "C09", "C10", "C11", "C15", "C16"]},
    {"name": "E3", "path": "engine/sched.hpp", "kind_free_text": "preemption-bounded schedule DFS: real pthreads serialised by a cooperative scheduler with scheduling points in harness-owned maps/functors and interposed pthread_mutex_*; plus a free-running ThreadSanitizer pass",
     "serves_properties": ["C12"]},
]

NOTES = "All checks explore the implementation itself (no abstract model): traces_validated_against_impl equals the number of executed units. VERIF_SEED only derives generic data / jitter, never which cases run."
