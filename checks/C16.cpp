// C16 -- validation verdicts: invalid problems rejected, valid ones accepted, verdict reported coherently (E1 + history sequences).
// Built WITHOUT -ffast-math (the suite's flags make isfinite meaningless).
#include "optkit.hpp"
#include <climits>
#include <stdexcept>
using namespace vf;

template <int D> struct Call {
  bool use_tp = false; std::vector<double> T, tp; double t0 = 0.25; typename Problem<D>::Mat P; BoundaryConditions<D> bc;
};
// reference predicate (R4): what the call must report
template <int D> static bool model_valid(int S, const Call<D> &c, bool &stores) {
  std::vector<double> T = c.T; double t0 = c.t0; stores = true;
  if (c.use_tp) { if (c.tp.empty()) { stores = false; return false; } T.clear(); for (size_t i = 1; i < c.tp.size(); ++i) T.push_back(c.tp[i] - c.tp[i - 1]); t0 = c.tp[0]; }
  const int N = (int)T.size();
  bool ok = N >= 1 && c.P.rows() == N + 1 && std::isfinite(t0);
  for (double t : T) ok = ok && std::isfinite(t) && t >= 1e-3;
  for (int i = 0; i < c.P.rows(); ++i) for (int d = 0; d < D; ++d) ok = ok && std::isfinite(c.P(i, d));
  for (int side = 0; side < 2; ++side) for (int k = 1; k <= S - 1; ++k) for (int d = 0; d < D; ++d) ok = ok && std::isfinite(bc_ref(c.bc, side, k)(d));
  return ok;
}
template <int D> static Call<D> base_call(int S, int N, uint64_t seed, bool tp) {
  Call<D> c; Problem<D> p = opt_problem<D>(S, N, seed, 0.25); c.T = p.T; c.P = p.P; c.bc = p.bc; c.t0 = p.t0; c.use_tp = tp; c.tp = p.timepoints(); return c;
}
template <int D> struct Fault { std::string name; std::function<void(Call<D> &)> apply; };

template <int S, int D> struct Run {
  typedef SplineOptimizer<D, Spl<S, D>> Opt;
  Ctx &c; const std::string &unit;
  Run(Ctx &c_, const std::string &u) : c(c_), unit(u) {}
  static bool invoke(Opt &o, const Call<D> &k) { return k.use_tp ? o.setInitState(k.tp, k.P, k.bc) : o.setInitState(k.T, k.P, k.t0, k.bc); }
  // verdict coherence after a call; `stored_valid` = model verdict of the problem the optimizer currently stores
  bool coherent(Opt &o, bool ret, bool want, bool stored_valid, bool any_stored, const std::string &what) {
    ++c.st.comparisons;
    auto fail = [&](const std::string &m) { c.st.violate(unit, fmt("%s D=%d: %s: %s", order_name(S), D, what.c_str(), m.c_str()), {{"order", order_name(S)}, {"what", "verdict"}}); return false; };
    if (ret != want) return fail(fmt("setInitState returned %s, the problem is %s", ret ? "true" : "false", want ? "valid" : "invalid"));
    if (o.isValid() != want || (bool)o != want) return fail("isValid() / operator bool disagree with the verdict");
    if (o.getLastError().empty() != want) return fail(want ? "an error message is present although the problem is valid" : "no explanatory message although the problem is invalid");
    std::string msg = "x"; bool cv = o.checkValidity(&msg);
    if (cv != stored_valid) return fail(fmt("checkValidity() = %s but the stored problem is %s", cv ? "true" : "false", stored_valid ? "valid" : "invalid"));
    if (msg.empty() != cv) return fail("checkValidity(&msg): message emptiness does not match its verdict");
    if (!any_stored && cv) return fail("checkValidity() true with nothing stored");
    // asking again with an out-parameter must not wipe the stored explanation of a rejected problem (seeded change C16-m8)
    if (!want && !cv && o.getLastError().empty()) return fail("after checkValidity(&msg) on a rejected problem getLastError() is empty although isValid() is false");
    if (o.isValid() != want || (bool)o != want) return fail("checkValidity(&msg) changed the validity flag");
    return true;
  }
  void single_and_pairs(int N) {
    std::vector<Fault<D>> F;
    const double bad[3] = {NAN, INFINITY, -INFINITY}; const char *bn[3] = {"NaN", "+inf", "-inf"};
    for (int v = 0; v < 3; ++v) {
      F.push_back({fmt("start time = %s", bn[v]), [=](Call<D> &k) { k.t0 = bad[v]; if (!k.tp.empty()) { k.tp[0] = bad[v]; } }});
      for (int i = 0; i < N; ++i) F.push_back({fmt("duration %d = %s", i, bn[v]), [=](Call<D> &k) { if (i < (int)k.T.size()) k.T[i] = bad[v]; if (i + 1 < (int)k.tp.size()) k.tp[i + 1] = bad[v]; }});
      for (int i = 0; i <= N; ++i) for (int d = 0; d < D; ++d) F.push_back({fmt("waypoint %d dim %d = %s", i, d, bn[v]), [=](Call<D> &k) { if (i < k.P.rows()) k.P(i, d) = bad[v]; }});
      for (int side = 0; side < 2; ++side) for (int q = 1; q <= 3; ++q) for (int d = 0; d < D; ++d) F.push_back({fmt("%s derivative %d dim %d = %s", side ? "end" : "start", q, d, bn[v]), [=](Call<D> &k) { bc_ref(k.bc, side, q)(d) = bad[v]; }});
    }
    const double dv[7] = {std::nextafter(1e-3, 0.0), 1e-3, std::nextafter(1e-3, 1.0), 0.0, -1.0, 4.9406564584124654e-324, 0.00099999}; const char *dn[7] = {"nextbelow(1e-3)", "1e-3", "nextabove(1e-3)", "0", "-1", "denormal", "0.00099999"};
    for (int v = 0; v < 7; ++v) for (int i = 0; i < N; ++i) F.push_back({fmt("duration %d = %s", i, dn[v]), [=](Call<D> &k) { if (i < (int)k.T.size()) k.T[i] = dv[v]; if (i + 1 < (int)k.tp.size()) { double delta = dv[v] - (k.tp[i + 1] - k.tp[i]); for (size_t j = i + 1; j < k.tp.size(); ++j) k.tp[j] += delta; } }});
    F.push_back({"one waypoint row too few", [](Call<D> &k) { typename Problem<D>::Mat P = k.P.topRows(k.P.rows() - 1); k.P = P; }});
    F.push_back({"one waypoint row too many", [](Call<D> &k) { typename Problem<D>::Mat P(k.P.rows() + 1, D); P.topRows(k.P.rows()) = k.P; P.row(k.P.rows()).setZero(); k.P = P; }});
    F.push_back({"no waypoints", [](Call<D> &k) { k.P.resize(0, D); }});
    F.push_back({"no durations / a single time point", [](Call<D> &k) { k.T.clear(); if (!k.tp.empty()) k.tp.resize(1); }});
    F.push_back({"empty time vector", [](Call<D> &k) { k.T.clear(); k.tp.clear(); }});
    F.push_back({"non-increasing time points / zero duration", [](Call<D> &k) { if (!k.T.empty()) k.T.back() = 0.0; if (k.tp.size() >= 2) k.tp.back() = k.tp[k.tp.size() - 2]; }});
    F.push_back({"decreasing time points / negative duration", [](Call<D> &k) { if (!k.T.empty()) k.T[0] = -0.5; if (k.tp.size() >= 2) k.tp[1] = k.tp[0] - 0.5; }});
    auto one = [&](const Call<D> &k, const std::string &what) { Opt o; bool stores, want = model_valid<D>(S, k, stores); bool ret = invoke(o, k); coherent(o, ret, want, stores ? want : false, stores, what); c.st.cls(want ? "verdict: accepted" : "verdict: rejected"); if (!c.st.seen(fmt("%d/%d/", S, D) + what)) ++c.st.nontrivial; };
    for (int tp = 0; tp < 2; ++tp) {
      Call<D> base = base_call<D>(S, N, 60 + N, tp);
      one(base, fmt("N=%d %s overload, no fault", N, tp ? "time-point" : "duration"));
      for (size_t a = 0; a < F.size(); ++a) { Call<D> k = base; F[a].apply(k); one(k, fmt("N=%d %s overload, fault: %s", N, tp ? "time-point" : "duration", F[a].name.c_str())); }
      // all pairs of faults (reduced list: every 3rd non-finite placement keeps each field kind and value)
      std::vector<size_t> R; for (size_t a = 0; a < F.size(); ++a) if (a % 3 == 0 || a >= F.size() - 7 - 7 * (size_t)N) R.push_back(a);
      for (size_t x = 0; x < R.size(); ++x) for (size_t y = x + 1; y < R.size(); ++y) { Call<D> k = base; F[R[x]].apply(k); F[R[y]].apply(k); one(k, fmt("N=%d %s overload, faults: %s + %s", N, tp ? "time-point" : "duration", F[R[x]].name.c_str(), F[R[y]].name.c_str())); }
    }
  }
  // all sequences of length <= 3 of valid / invalid initialisations on ONE object
  void histories() {
    std::vector<Call<D>> ops; std::vector<std::string> names;
    for (int tp = 0; tp < 2; ++tp) {
      ops.push_back(base_call<D>(S, 2, 71, tp)); names.push_back(fmt("valid a (%s)", tp ? "tp" : "dur"));
      ops.push_back(base_call<D>(S, 3, 72, tp)); names.push_back(fmt("valid b (%s)", tp ? "tp" : "dur"));
      { Call<D> k = base_call<D>(S, 2, 73, tp); k.P(1, 0) = NAN; ops.push_back(k); names.push_back(fmt("NaN waypoint (%s)", tp ? "tp" : "dur")); }
      { Call<D> k = base_call<D>(S, 2, 74, tp); k.T[1] = 5e-4; k.tp[2] = k.tp[1] + 5e-4; ops.push_back(k); names.push_back(fmt("short duration (%s)", tp ? "tp" : "dur")); }
      { Call<D> k = base_call<D>(S, 3, 75, tp); typename Problem<D>::Mat P = k.P.topRows(3); k.P = P; ops.push_back(k); names.push_back(fmt("row mismatch (%s)", tp ? "tp" : "dur")); }
      { Call<D> k = base_call<D>(S, 2, 76, tp); k.t0 = INFINITY; k.tp[0] = -INFINITY; ops.push_back(k); names.push_back(fmt("infinite start (%s)", tp ? "tp" : "dur")); }
      { Call<D> k = base_call<D>(S, 2, 77, tp); k.T.clear(); k.tp.clear(); ops.push_back(k); names.push_back(fmt("empty (%s)", tp ? "tp" : "dur")); }
    }
    const int A = (int)ops.size();
    for (int len = 1; len <= 3; ++len) { long tot = 1; for (int i = 0; i < len; ++i) tot *= A;
      for (long q = 0; q < tot; ++q) { Opt o; bool stored_valid = false, any = false; long qq = q; std::string hist;
        for (int i = 0; i < len; ++i) { int a = qq % A; qq /= A; hist += (i ? " ; " : "") + names[a]; bool stores, want = model_valid<D>(S, ops[a], stores); if (stores) { stored_valid = want; any = true; } bool ret = invoke(o, ops[a]);
          if (!coherent(o, ret, want, stored_valid, any, "history [" + hist + "]")) { i = len; } }
        c.st.cls(fmt("initialisation histories of length %d", len)); if (!c.st.seen(fmt("h/%d/%d/%d/%ld", S, D, len, q))) ++c.st.nontrivial; } }
  }
};

template <int DIM, int ORDER> static void ppoly_part(Ctx &c, const std::string &unit) {
  typedef PPolyND<DIM, ORDER> PP; typedef typename PP::MatrixType Mat;
  auto fail = [&](const std::string &m) { c.st.violate(unit, fmt("PPolyND<%d,%d>: %s", DIM, ORDER, m.c_str()), {{"what", "ppoly-validation"}}); };
  const int ncs[4] = {0, 1, 4, ORDER == Eigen::Dynamic ? 13 : ORDER + 1};
  for (int nb : {0, 1, 2, 5}) for (int nc : ncs) for (int roff : {-1, 0, 1}) for (int via_update = 0; via_update < 2; ++via_update) {
    std::vector<double> b; for (int i = 0; i < nb; ++i) b.push_back(-1.0 + 0.75 * i);
    int nseg = nb >= 2 ? nb - 1 : 0; long rows = (long)nseg * nc + roff; if (rows < 0) continue;
    Mat C = Mat::Constant(rows, DIM, 0.5);
    bool want = nb >= 2 && roff == 0 && (ORDER == Eigen::Dynamic ? true : (nc >= 1 && nc <= ORDER));
    // Dynamic order with nc = 0 and 0 rows: the row count matches; the property only requires rejection for < 2 breakpoints,
    // row mismatch, or more coefficients than a FIXED order -- so that case is not asserted
    if (ORDER == Eigen::Dynamic && nc == 0) continue;
    PP p; if (via_update) { std::vector<double> vb = {0.0, 1.0, 2.0}; Mat vc = Mat::Constant(2 * 2, DIM, 1.0); p.update(vb, vc, 2); if (ORDER == Eigen::Dynamic || ORDER >= 2) { if (!p.isInitialized()) { fail("valid update rejected"); return; } (void)p.evaluate(0.5, 1); } p.update(b, C, nc); } else p = PP(b, C, nc);
    ++c.st.comparisons;
    if (p.isInitialized() != want) { fail(fmt("%s with %d breakpoints, %d coefficients, %ld rows: isInitialized() = %d, expected %d", via_update ? "update" : "constructor", nb, nc, rows, p.isInitialized(), want)); return; }
    if (!want && (p.getNumSegments() != 0)) { fail("rejected input leaves segments behind"); return; }
    if (want && p.getNumSegments() != nseg) { fail("accepted input has the wrong segment count"); return; }
    // checked access throws exactly outside [0, n)
    const int n = p.getNumSegments(); std::vector<int> idx = {INT_MIN, -2, -1, n, n + 1, INT_MAX}; for (int i = 0; i < n; ++i) idx.push_back(i);
    for (int i : idx) { bool threw = false; try { auto s = p.at(i); if (s.index() != i) { fail("at(i) returned the wrong segment"); return; } } catch (const std::out_of_range &) { threw = true; } ++c.st.comparisons; if (threw != (i < 0 || i >= n)) { fail(fmt("at(%d) with %d segments: %s", i, n, threw ? "threw" : "did not throw")); return; } }
    // valid -> invalid -> valid again
    if (!want) { std::vector<double> vb = {0.0, 1.0}; Mat vc = Mat::Constant(1, DIM, 2.0); p.update(vb, vc, 1); if (!p.isInitialized() || p.getNumSegments() != 1 || p.evaluate(0.5, 0)(0) != 2.0) { fail("object unusable after a rejected update"); return; } }
    c.st.cls(want ? "ppoly: accepted" : "ppoly: rejected");
  }
}

// PPolyND request histories: ALL sequences of length <= depth over the request alphabet (breakpoint count, coefficient count, row count)
// on one object; after every request the verdict must be the one the request alone deserves (seeded change C16-m6: a fast path of
// update() that skips validation when the new request has the breakpoint and row counts of the stored state).
template <int DIM, int ORDER> static void ppoly_histories(Ctx &c, const std::string &unit, int depth) {
  typedef PPolyND<DIM, ORDER> PP; typedef typename PP::MatrixType Mat;
  struct Req { int nb, nc; long rows; bool want; };
  std::vector<Req> reqs;
  const int ncs[5] = {0, 1, 2, 4, ORDER == Eigen::Dynamic ? 13 : ORDER + 1};
  for (int nb : {0, 1, 2, 3, 5}) for (int nc : ncs) { if (ORDER == Eigen::Dynamic && nc == 0) continue;
    const int nseg = nb >= 2 ? nb - 1 : 0; std::set<long> rs = {(long)nseg * nc - 1, (long)nseg * nc, (long)nseg * nc + 1, (long)nseg, 2L * nseg, 4L * nseg};
    for (long r : rs) if (r >= 0) reqs.push_back({nb, nc, r, nb >= 2 && r == (long)nseg * nc && (ORDER == Eigen::Dynamic ? nc >= 1 : (nc >= 1 && nc <= ORDER))}); }
  const long R = (long)reqs.size(); long total = 0; for (int len = 1; len <= depth; ++len) { long n = 1; for (int i = 0; i < len; ++i) n *= R; total += n; }
  for (int len = 1; len <= depth; ++len) { long n = 1; for (int i = 0; i < len; ++i) n *= R;
    for (long q = 0; q < n; ++q) { PP p; long qq = q; std::string hist;
      for (int step = 0; step < len; ++step) { const Req &r = reqs[qq % R]; qq /= R;
        std::vector<double> b; for (int i = 0; i < r.nb; ++i) b.push_back(-1.0 + 0.75 * i + 0.125 * step);
        Mat C = Mat::Constant(r.rows, DIM, 0.5 + step);
        if (step == 0 && (q & 1)) p = PP(b, C, r.nc); else p.update(b, C, r.nc);
        hist += fmt("%s(bp=%d,nc=%d,rows=%ld)", step ? " ; " : "", r.nb, r.nc, r.rows);
        ++c.st.comparisons; const int nseg = r.nb >= 2 ? r.nb - 1 : 0;
        if (p.isInitialized() != r.want || p.getNumSegments() != (r.want ? nseg : 0) || (r.want && p.getNumCoeffs() != r.nc)) {
          c.st.violate(unit, fmt("PPolyND<%d,%d>: after requests [%s] on one object: isInitialized() = %d, %d segments, %d coefficients; the last request alone deserves %s", DIM, ORDER, hist.c_str(), (int)p.isInitialized(), p.getNumSegments(), p.getNumCoeffs(), r.want ? "acceptance" : "rejection (uninitialised, no segments)"), {{"what", "ppoly-history"}}); return; }
        const int ns = p.getNumSegments();
        for (int i : {-1, 0, ns - 1, ns}) { bool threw = false; try { (void)p.at(i); } catch (const std::out_of_range &) { threw = true; } if (threw != (i < 0 || i >= ns)) { c.st.violate(unit, fmt("PPolyND<%d,%d>: after requests [%s]: at(%d) with %d segments %s", DIM, ORDER, hist.c_str(), i, ns, threw ? "threw" : "did not throw"), {{"what", "ppoly-history"}}); return; } }
        if (r.want) { auto v = p.evaluate(b[0] + 0.25, 0); double geo = 0; for (int k = r.nc - 1; k >= 0; --k) geo = geo * 0.25 + 1.0; /* all-equal coefficients at local time 1/4: exact in double */ if (v(0) != (0.5 + step) * geo) { c.st.violate(unit, fmt("PPolyND<%d,%d>: after requests [%s]: evaluation does not reflect the accepted data", DIM, ORDER, hist.c_str()), {{"what", "ppoly-history"}}); return; } (void)p.evaluate(b[0] + 0.25, 1); }
      }
    } }
  c.st.cls(fmt("ppoly request histories to depth %d", depth)); c.st.notes[fmt("ppoly_histories<%d,%d>", DIM, ORDER)] = fmt("%ld requests, %ld sequences of length <= %d, all executed", R, total, depth);
}

template <int S, int D> static void explore(Ctx &c, long &id) {
  for (int N = 1; N <= 3; ++N) { long my = id++; if (!c.mine(my)) continue; std::string unit = str(my); if (!c.begin(unit)) continue; Run<S, D> r(c, unit); r.single_and_pairs(N); ++c.st.evaluations; if (!c.st.seen(fmt("sp/%d/%d/%d", S, D, N))) ++c.st.nontrivial;
    c.st.sample(fmt("unit %s: %s D=%d N=%d: every scalar input field x {NaN,+inf,-inf}, 7 duration values around 1 ms, 7 size/ordering faults, all pairs of faults, both overloads: return value = isValid = bool = model, message present iff invalid, checkValidity agrees", unit.c_str(), order_name(S), D, N), 4); }
  { long my = id++; if (c.mine(my)) { std::string unit = str(my); if (c.begin(unit)) { Run<S, D> r(c, unit); r.histories(); ++c.st.evaluations; if (!c.st.seen(fmt("hist/%d/%d", S, D))) ++c.st.nontrivial;
    c.st.sample(fmt("unit %s: %s D=%d: all sequences of length <= 3 over 14 initialisations (2 valid, 5 invalid kinds, both overloads) on one object", unit.c_str(), order_name(S), D), 6); } } }
}

int main(int argc, char **argv) {
  Args a = parse_args(argc, argv);
  return supervise(a, [&](Ctx &c) {
    long id = 0;
    explore<2, 1>(c, id); explore<3, 1>(c, id); explore<4, 1>(c, id); explore<2, 2>(c, id); explore<3, 2>(c, id); explore<4, 2>(c, id);
    { const int depth = c.args.thorough() ? 3 : 2;
      for (int inst = 0; inst < 5; ++inst) { long my = id++; if (!c.mine(my)) continue; std::string unit = str(my); if (!c.begin(unit)) continue;
        switch (inst) { case 0: ppoly_histories<1, Eigen::Dynamic>(c, unit, depth); break; case 1: ppoly_histories<2, Eigen::Dynamic>(c, unit, depth); break; case 2: ppoly_histories<2, 4>(c, unit, depth); break; case 3: ppoly_histories<3, 8>(c, unit, depth); break; default: ppoly_histories<1, 12>(c, unit, depth); }
        ++c.st.evaluations; if (!c.st.seen(fmt("ppolyhist/%d", inst))) ++c.st.nontrivial;
        c.st.sample(fmt("unit %s: PPolyND instantiation %d: every sequence of <= %d construct/update requests over {0,1,2,3,5 breakpoints} x {0,1,2,4,ORDER+1 coefficients} x {matching, off-by-one and other-coefficient-count row counts}: verdict, segment count, coefficient count and at() bounds after every request", unit.c_str(), inst, depth), 9); } }
    { long my = id++; if (c.mine(my)) { std::string unit = str(my); if (c.begin(unit)) { ppoly_part<1, Eigen::Dynamic>(c, unit); ppoly_part<2, Eigen::Dynamic>(c, unit); ppoly_part<2, 4>(c, unit); ppoly_part<3, 8>(c, unit); ppoly_part<1, 12>(c, unit); ++c.st.evaluations; c.st.seen("ppoly"); ++c.st.nontrivial;
      c.st.sample("PPolyND: breakpoint counts {0,1,2,5} x coefficient counts {0,1,4,ORDER+1} x row count off by {-1,0,+1} x {constructor, update after a valid state}: isInitialized / getNumSegments; at(i) for i in {INT_MIN,-2,-1,0..n-1,n,n+1,INT_MAX}", 8); } } }
  });
}
